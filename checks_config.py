# Per-property configuration of the driver: which compiled test (package +
# test function) decides the property, how many generated cases per tier, and
# how many shard processes. Case counts, not time limits, bound every run.

def part(name, pkg, test, quick, thorough, qshards=4, tshards=16, **kw):
    d = dict(name=name, pkg=pkg, test=test,
             quick=dict(checks=quick, shards=qshards, timeout=kw.pop("qtimeout", 300)),
             thorough=dict(checks=thorough, shards=tshards, timeout=kw.pop("ttimeout", 3000)))
    d.update(kw)
    return d

CHECKS = {
    "C20": dict(parts=[part("decode-no-panic", "codec", "TestC20", 200_000, 20_000_000),
                       dict(name="native-fuzz", pkg="codec", fuzz="FuzzC20", seconds=240)]),
    "C21": dict(parts=[part("roundtrip", "codec", "TestC21", 100_000, 10_000_000),
                       part("short-bijection", "codec", "TestC21Short", 1, 1, qshards=1, tshards=1, random=False)]),
    "C22": dict(parts=[part("decode-faithful", "codec", "TestC22", 300_000, 30_000_000),
                       dict(name="native-fuzz", pkg="codec", fuzz="FuzzC22", seconds=240)]),
}

# Manifest metadata (tools/gen_manifest.py turns this into MANIFEST.json).
META = {
    "C20": dict(
        text="Exploration: every byte string of length 0-2 (quick) / 0-3 (thorough) is decoded exhaustively, then hundreds of thousands (millions in the thorough tier) of structurally generated datagrams -- all 28 types with tampered header form, lying length fields, truncation, extension, AUTH method-length overruns -- go through packets1.ReadPacket under recover(); the oracle is 'returns (packet,nil) or (nil,error), never panics'. No claim of absence beyond the enumerated lengths. The decoded packet is compared after two further datagrams have been decoded (it must not alias the decoder's buffers).",
        note="Trusts the harness's one-datagram reader to model a UDP/DTLS read; the decoded packet's String() is exercised too (logging path).",
        technique="exhaustive enumeration of short inputs + structural PBT (rapid) with shrinking"),
    "C21": dict(
        text="Exploration: generated packets of all 28 types with legal field values are encoded by the implementation, compared byte-for-byte with an independent reference encoder written from the MQTT-SN 1.2 tables, checked for the length-field rules, decoded again and compared field by field; the short-topic bijection is checked exhaustively over all 65536 IDs.",
        note="The reference codec (harness/snref) is trusted; it was written from the specification, not from the code.",
        technique="round-trip + differential against a reference encoder (rapid), exhaustive for short topic IDs"),
    "C22": dict(
        text="Exploration: every datagram the decoder accepts (from the C20 input space) is parsed independently by the reference decoder using the actual header form; every field must agree and re-encoding must reproduce type and body modulo the three differences the property allows.",
        note="Where the length field disagrees with the datagram size both readings of the body are accepted; the reference decoder is trusted.",
        technique="differential decoding against a reference decoder + re-encode relation (rapid), exhaustive for lengths <= 2/3"),
}
NOT_APPLICABLE = {}
CHECKS["C10"] = dict(parts=[part("half-open-reaped", "gw", "TestC10", 2000, 100_000)])
CHECKS["C07"] = dict(parts=[part("no-admission-without-broker", "gw", "TestC07", 4000, 300_000)])
CHECKS["C08"] = dict(parts=[part("auth-enforced", "gw", "TestC08", 4000, 300_000)])
CHECKS["C09"] = dict(parts=[part("will-protocol", "gw", "TestC09", 4000, 300_000)])
_GW_NOTE = "Real gateway session (unmodified handler1.run through the verif-tagged hook) on in-memory links inside a testing/synctest bubble (virtual time); the scripted client and broker speak through the reference codecs snref/mqttref, which are trusted. Built with go1.26.8 (needed for synctest)."
META.update({
    "C07": dict(
        text="Exploration: thousands of generated pre-admission packet sequences (every packet type, will/auth/sleep variants, auth on/off, broker accept/refuse/silent) are run against the real session; a monitor over the complete trace checks that CONNACK(accepted) is preceded by a broker acceptance in this session, that nothing but CONNECT/exempt QoS -1 PUBLISH/DISCONNECT reaches the broker before admission, and that an illegal packet ends the session within one poll interval with nothing forwarded afterwards. Broker CONNACK codes are drawn from 0, the five defined refusals and reserved values (6, 0x10, 0x7f, 0x80..0x9f, 0xfd..0xff): accepted is code 0 and nothing else. CONNACKs are script steps (late, duplicated, unsolicited) and admission is judged per connect exchange; a plain DISCONNECT comes in both encodings (without the Duration field, and with the field present and zero).",
        note=_GW_NOTE, technique="stateful PBT (generated packet sequences) with a trace monitor as oracle; virtual time"),
    "C08": dict(
        text="Exploration: generated connect exchanges with AUTH/WILLTOPIC/WILLMSG in any order and multiplicity and hostile AUTH payloads, auth on/off, all gateway-credential configurations; the monitor compares the credentials of every MQTT CONNECT on the broker stream with the AUTH of the current exchange (auth on) or with the configured credentials (auth off) and checks the unknown-method refusal.",
        note=_GW_NOTE, technique="stateful PBT with a credential monitor over the broker byte stream (independent MQTT parser)"),
    "C09": dict(
        text="Exploration: generated connect exchanges (will topics/messages/flags, keep-alive values incl. 0, broker codes 0-5 and silence, duplicated and out-of-order WILL*/AUTH packets); the monitor checks the order WILLTOPICREQ -> WILLMSGREQ -> MQTT CONNECT, the will carried by the CONNECT, at most one CONNECT per exchange and the CONNACK mapping. Broker refusals include reserved CONNACK codes (6..0xff).",
        note=_GW_NOTE, technique="stateful PBT with a protocol-order monitor (reference model of the documented exchange)"),
    "C10": dict(
        text="Exploration: every prefix of every connect-exchange variant (enumerated exhaustively, with and without a superseding CONNECT) plus generated gaps around the 100 ms poll interval; the oracle is a bound on the virtual clock: the session has returned and closed the broker connection by last CONNECT + 5 s + 100 ms.",
        note=_GW_NOTE + " Timing is judged on the bubble's virtual clock with one poll interval of slack (goroutines runnable at the same instant are ordered by the Go scheduler).",
        technique="PBT over exchange prefixes on a virtual clock (testing/synctest), exhaustive over (variant, cut) pairs"),
})
CHECKS["C01"] = dict(parts=[part("client-publish-forwarded", "gw", "TestC01", 3000, 200_000)])
CHECKS["C02"] = dict(parts=[part("broker-publish-resolvable", "gw", "TestC02", 3000, 200_000)])
CHECKS["C03"] = dict(parts=[part("control-packets-one-to-one", "gw", "TestC03", 3000, 150_000)])
CHECKS["C04"] = dict(parts=[part("topic-ids-unique", "gw", "TestC04", 2000, 50_000)])
META.update({
    "C01": dict(
        text="Exploration: generated session histories (registrations, subscriptions of every form, broker grants/refusals) interleaved with client PUBLISH packets over all flag combinations, topic-ID types 0-3, known/unknown/shadowed IDs and boundary payload sizes; after every PUBLISH the broker byte stream is parsed by the independent MQTT parser and compared with what the client's topic ID denotes at that moment according to a model rebuilt from the trace (exactly one unchanged PUBLISH, or none when the ID denotes nothing). Histories include broker PUBLISHes on plain names whose gateway REGISTER the scripted client accepts, refuses (return codes 1-3) or ignores: an ID from a refused REGISTER denotes nothing. Sessions also contain a CONNECT which the gateway refuses itself and which names another client, duplicates of the client's recent datagrams (its REGACKs included: a stale REGACK for a message ID the gateway uses again), payloads up to 8183 octets (the largest that fits), and in a quarter of the cases scripted peers which answer from the links' write hooks, while the gateway is still inside the write.",
        note=_GW_NOTE, technique="stateful PBT against a topic-knowledge reference model; differential parse of the broker stream"),
    "C02": dict(
        text="Exploration: generated histories with broker PUBLISH packets on short, predefined (own, '*'-only, shadowed), registered and brand-new names (also two at the same instant, and at the same instant as the client's own REGISTER of that name); the scripted client resolves every received PUBLISH using only what it accepted itself and the shared predefined configuration (reference lookup); name, payload, QoS and retain must match the broker's. Payloads up to 8183 octets; refused CONNECTs naming another client; stale duplicate REGACKs; eager peers (answers from the links' write hooks) in a quarter of the cases; deliveries are attributed by payload, QoS, retain, the broker's packet identifier (QoS 1/2) and, for look-alikes, the resolved name.",
        note=_GW_NOTE + " Message-ID collisions between exchanges of opposite directions are excluded here by construction (they are C06's subject). Orderings between the gateway's two receive loops are explored only as far as the Go scheduler produces them: a schedule-dependent regression replay is repeated 1500 times.", technique="stateful PBT; oracle = independent client-side resolution model"),
    "C03": dict(
        text="Exploration: generated SUBSCRIBE/UNSUBSCRIBE/PUBREL/PINGREQ/DISCONNECT traffic and broker acknowledgements with return codes drawn independently of the requests; per step exactly one translated packet with the same message ID, resolved filter, requested QoS, acceptance iff code <= 2, granted QoS and the expected topic ID. Time passes between steps (1 ms - 9.999 s, RetryDelay 10 s; the SUBACK clause is time-aware), a message ID is used again after an answered SUBSCRIBE, the client sleeps and comes back with CONNECT while 0-2 broker answers arrive (owed at that CONNECT; no PINGRESP without PINGREQ, also with a broker which answers the gateway's own pings from the write hook).",
        note=_GW_NOTE, technique="stateful PBT with a one-to-one translation model"),
    "C04": dict(
        text="Exploration: registration histories that run 2-3x past exhaustion of a topic-ID space scaled down to 1..N (N=2..12) with predefined IDs inside the range; a history invariant over all REGACK/SUBACK/REGISTER IDs: in range, never a visible predefined ID, id->name is a function that never changes, also after refusals. The thorough tier adds one run over the real 65534-ID range. A third of the cases use the real range 1..0xFFFE with all but its top 2-12 IDs skipped beforehand (hook SkipTopicIDs), predefined IDs up to 0xFFFE inside, so that the real upper bound and wrap-around are exercised in every run. The forwarding oracle of C01 is applied to client PUBLISHes on known IDs after a stale duplicate REGACK ('an ID never later denotes another name' shows when the ID is used).",
        note=_GW_NOTE + " The ID range is scaled through a verif-tagged hook that replaces only the upper bound of the session's own ID sequence.", technique="model-based stateful PBT with a history invariant; scaled-down ID space"),
})
CHECKS["C13"] = dict(parts=[part("clean-termination", "gw", "TestC13", 3000, 150_000),
                            part("dial-failure", "gw", "TestC13Dial", 16, 200, qshards=1, tshards=2),
                            part("process-shutdown", "cli", "TestC13Shutdown", 24, 400, qshards=8, tshards=8, needs_tools=True)])
CHECKS["C14"] = dict(parts=[part("will-cancelled-only-by-disconnect", "gw", "TestC14", 3000, 150_000)])
CHECKS["C23"] = dict(parts=[part("gateway-datagrams-wellformed", "gw", "TestC23GW", 3000, 150_000),
                            part("client-datagrams-wellformed", "cl", "TestC23Client", 1000, 100_000)])
CHECKS["C24"] = dict(parts=[part("mqtt-valid", "gw", "TestC24", 4000, 250_000), part("slow-broker-stream", "gw", "TestC24Slow", 2000, 120_000)])
META.update({
    "C13": dict(
        text="Exploration: generated session prefixes (fresh, mid-connect, active with pending exchanges, asleep with/without pinger, awake, reconnected) crossed with every termination cause at drawn offsets around the poll interval; oracle: run returns within 100 ms + 1 ms of the cause on the virtual clock, the broker connection is closed, the client gets the expected number of DISCONNECTs, and a goroutine census right after the end finds no frame of the code under test. A second part runs sessions against a refusing broker address on real loopback sockets (dial failure). Prefixes include a broker that has stopped reading with a write to it pending (in-memory link with a write stall honouring write deadlines), sleep durations with a zero low or high byte, a client announcing a new sleep duration while asleep, and a client which is unreachable when the cause arrives (every write to it fails). Further causes: the client's transport closed by the peer (EOF), the broker's CONNACK arriving when the client has become unreachable; plain DISCONNECTs in both encodings; eager peers in a quarter of the cases. Process-level part: the real binary with 1-8 connected clients gets SIGTERM/SIGINT; after it has exited every active client must have received exactly one DISCONNECT, every sleeping one none.",
        note=_GW_NOTE + " Liveness is decided up to the observation window (400 ms of virtual time after the cause); the dial-failure part uses real time and treats its own timeouts as inconclusive.",
        technique="stateful PBT (prefix x termination cause) on a virtual clock + goroutine census; fault injection (broker unreachable) on loopback"),
    "C14": dict(
        text="Exploration: the C13 generator; the monitor requires an MQTT DISCONNECT on the broker stream iff the client sent a plain DISCONNECT, after it, with nothing but EOF following. Additionally, anywhere in the history (also before the cause) an MQTT DISCONNECT without a preceding plain client DISCONNECT is a violation; prefixes include re-announced sleeps and sleep durations with a zero low or high byte. Further causes: transport EOF, CONNACK undeliverable to an unreachable client, a client DISCONNECT arriving after the shutdown began.",
        note=_GW_NOTE, technique="stateful PBT with an iff-monitor over the broker byte stream"),
    "C23": dict(
        text="Exploration: generated histories biased to rarely taken send paths (zero keep-alive, awake CONNECT, refusals, exhaustion replies, wake-up flush, retransmissions, shutdown, broker payloads up to 70000 octets); every datagram the gateway sent is decoded strictly by the reference decoder and checked for direction, length field and size <= 8192. Broker publishes also carry topic names of 8180-65535 octets, client calls names of 8183-65535 octets (which cannot fit a datagram).",
        note=_GW_NOTE + " The client-library direction is checked by a second part once the client simulator exists.",
        technique="stateful PBT; oracle = strict reference decoder + direction table + size bound"),
    "C24": dict(
        text="Exploration: generated histories of decodable but improper client input; every packet the gateway writes to the broker is parsed by the independent MQTT 3.1.1 parser and validated against per-packet normative statements (each violation names its clause). Second part: a broker which reads slowly (takes 1-3000 more octets, stalls 99-450 ms, reads on): the stream must parse and be, octet for octet, what a broker which is never slow reads (differential).",
        note=_GW_NOTE + " Only per-packet rules are judged; repeated CONNECTs and QoS -1 PUBLISH before CONNECT are excluded as the property says.",
        technique="stateful PBT; oracle = MQTT 3.1.1 validator with clause citations; fault injection (partial writes) with a differential oracle (slow broker vs broker which is never slow)"),
})
CHECKS["C11"] = dict(parts=[part("sleep-buffering", "gw", "TestC11", 3000, 150_000)])
CHECKS["C12"] = dict(parts=[part("broker-keepalive-kept", "gw", "TestC12", 2000, 100_000)])
CHECKS["C34"] = dict(parts=[part("vanished-clients-reaped", "gw", "TestC34", 2000, 100_000)])
META.update({
    "C11": dict(
        text="Exploration: generated sleep cycles (1-4 cycles x 1-3 wake-ups) with uniquely tagged broker publishes at drawn offsets around RetryDelay, including publishes injected at the same instant as the PINGREQ and between PINGRESP and the next wake-up; a client-state model per the project's specification interpretation judges silence while asleep, exactly-once in-order delivery in the wake-up flush followed by PINGRESP, and completeness once the client is active again. Racing variants include bursts of 2-8 publishes with the PINGREQ injected somewhere inside the burst; the order among the broker's messages is checked strictly (only the oldest owed message may be delivered), whichever flush a racing message lands in. Before the first sleep, in a quarter of the cases, a PINGREQ whose PINGRESP the broker sends while the gateway writes its answer to the sleep announcement (step mq-at-snwrite); messages on topics which need a REGISTER must have been delivered by the time the client is active again.",
        note=_GW_NOTE + " Same-instant (racing) publishes run without a settling barrier so both receive loops really run concurrently; which flush they land in is not constrained.",
        technique="stateful PBT with a sleep-state reference model and tagged messages; virtual time; same-instant injection for races"),
    "C12": dict(
        text="Exploration: generated timed histories over 6-20 keep-alive periods in which the client meets its own obligations (activity within K, wake-ups within D for D<K, =K, >K, >>K, re-announced sleeps, returns to active); the oracle measures, on the virtual clock, every gap between consecutive writes to the broker connection against 1.5 x K. The CONNECT which ends a sleep carries K, 0, 10K or K/2 in its Duration field (ignored for a sleeping client). The client's activity includes REGISTER (answered by the gateway itself): the gap this causes is a known finding with a kind of its own.",
        note=_GW_NOTE, technique="PBT over obligation-meeting timed histories (constructed, not filtered); oracle = max-gap over virtual timestamps"),
    "C34": dict(
        text="Exploration: generated session prefixes after which the client is silent forever, against a broker that enforces the MQTT keep-alive and the missing-CONNECT timeout on the virtual clock; the oracle bounds the time from the client's last packet to the end of the session per state (connecting, active, asleep, woken, reconnected). In a third of the cases the vanished client is also unreachable (every write to it fails). States include a client which only ever sent a CONNECT the gateway refuses itself.",
        note=_GW_NOTE + " 'Never' is observed as 'not within the bound plus 3 K + 2 s'.", technique="PBT with a time-enforcing model broker on a virtual clock; bounded-liveness oracle"),
})
CHECKS["C06"] = dict(parts=[part("gateway-exchanges-independent", "gw", "TestC06GW", 3000, 200_000),
                            part("gateway-message-id-reused", "gw", "TestC06Reuse", 2000, 150_000),
                            part("client-exchanges-independent", "cl", "TestC06Client", 3000, 200_000)])
CHECKS["C15"] = dict(parts=[part("sessions-isolated", "gw", "TestC15", 1500, 100_000, death_is_violation=True, death_kind="gateway-process-died/in-process"),
                            part("sessions-isolated-race-detector", "gw", "TestC15", 400, 30_000, race=True, death_is_violation=True, death_kind="data-race-or-crash/sessions", env={"GORACE": "halt_on_error=1"}),
                            part("listen-and-serve-isolated", "gw", "TestC15Net", 160, 6000, qshards=4, tshards=12, death_is_violation=True, death_kind="gateway-process-died/listen-and-serve")])
CHECKS["C25"] = dict(parts=[part("hostile-client-to-gateway", "gw", "TestC25Client", 3000, 200_000, death_is_violation=True, death_kind="gateway-session-panic/hostile-client"),
                            part("hostile-broker-to-gateway", "gw", "TestC25Broker", 3000, 200_000, death_is_violation=True, death_kind="gateway-session-panic/hostile-broker"),
                            part("hostile-gateway-to-client", "cl", "TestC25Gateway", 3000, 200_000, death_is_violation=True, death_kind="client-panic/hostile-gateway")])
META.update({
    "C06": dict(
        text="Exploration: 2-5 concurrently open exchanges of both directions whose message IDs coincide (client pool {1,2,0xFFFE,0xFFFF} against the broker's IDs and the gateway's own REGISTER IDs), with the opening packets and every acknowledgement step played in a drawn order by scripted peers that compute each packet from what they received; oracle: every exchange completes with its own acknowledgement carrying the right IDs. A second part does the same against the client library. A second gateway part: an earlier exchange with the same message ID ran to completion (a SUBSCRIBE: granted or refused) or was left unanswered after 1..n-1 steps (superseded), 0-1.5 RetryDelay before; late duplicates of the first exchange's acknowledgements; a broker which reuses the identifier the moment it has the last acknowledgement.",
        note=_GW_NOTE + " Exchanges of the same direction never share an ID (out of the property's scope); no time passes, so no retry timer interferes.",
        technique="stateful PBT over interleavings of symbolic exchange steps; oracle = per-exchange completion model"),
    "C15": dict(
        text="Exploration (metamorphic): 2-3 sessions built from one shared gateway configuration and predefined map run interleaved in a drawn order, one of them possibly hostile; each session's outgoing bytes (to its client and to its broker connection) must equal those of the same script run alone. The same cases also run under Go's race detector (halt on error): memory shared between two sessions' goroutines shows as a data race even when the bad overlap did not happen in that run. A further part runs 2-4 scripted peers, each on its own UDP socket and all at once, against the real Gateway.ListenAndServe on loopback with the harness as the broker on a TCP listener: per peer, the multiset of datagrams received and of MQTT packets on its broker connection must equal the alone-run, with exactly one broker connection per peer address carrying only that peer's client ID.",
        note=_GW_NOTE + " The ListenAndServe part uses real sockets and real time: a difference counts only if it shows in two executions (the second one paced), set-up failures are inconclusive, order within a direction is not compared, sleeping is left to the in-memory part. Scripts are constructed so that a lone session is deterministic (no name with two topic IDs, unique predefined names), otherwise map iteration order would differ between runs; no virtual time passes inside a case.",
        technique="metamorphic PBT: alone-vs-interleaved trace equality (in memory on virtual time, and through the real ListenAndServe on loopback sockets)"),
    "C25": dict(
        text="Exploration: three stateful fuzzers producing only decodable packets -- hostile MQTT-SN client against a gateway session, hostile broker against a gateway session, hostile gateway against the client library with API calls in flight -- with retry delays down to 1 ms, time advances and same-instant injections; oracle: the test process survives every case (session and client goroutines have no recover, so a panic kills it; the driver attributes the death to the case written to disk beforehand and minimises it by delta debugging). The hostile client also repeats one of its last three datagrams (its automatic acknowledgements included); the hostile gateway also sends fragments of QoS 2 deliveries sharing one message ID (PUBLISH copies with drawn DUP flags, repeated PUBRELs) and duplicates of its earlier packets. The hostile gateway now and then answers the client's latest request properly, so that subscriptions (also to filters deeper than the topics it then publishes on) and registrations exist when the next packets arrive.",
        note=_GW_NOTE + " Data-race reports are not C25 violations (no -race build here).",
        technique="stateful fuzzing (rapid) with process-death detection and ddmin minimisation"),
})
CHECKS["C27"] = dict(parts=[part("dispatch-matching", "cl", "TestC27", 5000, 300_000, death_is_violation=True, death_kind="client-process-died/dispatch")])
CHECKS["C17"] = dict(parts=[part("client-qos-under-loss", "cl", "TestC17", 3000, 200_000)])
CHECKS["C28"] = dict(parts=[part("calls-return", "cl", "TestC28", 3000, 200_000, death_is_violation=True, death_kind="client-process-died/api-calls")])
_CL_NOTE = "Real client library (unmodified, its dial replaced through the verif-tagged hook) on an in-memory datagram link inside a testing/synctest bubble; the scripted gateway speaks through the reference codec snref, which is trusted. Blocking API calls run on their own goroutines. Built with go1.26.8."
META.update({
    "C17": dict(
        text="Exploration: generated per-transmission fate plans (lost / processed but acknowledgement lost / acknowledged / acknowledged twice) for every protocol step of Register, Subscribe, Unsubscribe and Publish at QoS 0-3 over all topic forms, RetryCount 0-4, plus QoS 2 deliveries whose PUBREL is repeated after completion; the oracle derives from the plan whether each call must return nil or an error, and checks DUP and message IDs of every retransmission and a PUBCOMP for every PUBREL. A quarter of the calls overlap with a complete QoS 2 delivery from the gateway which carries the call's own message ID. Fates include 'stale': the transmission is lost while an acknowledgement of another kind with the same message ID arrives; the scripted gateway is eager (answers from the write hook) in 4 of 7 cases.",
        note=_CL_NOTE, technique="fault-plan PBT (loss/duplication per transmission) with a plan-derived oracle; virtual time"),
    "C27": dict(
        text="Exploration: generated subscribe/unsubscribe histories over filters with empty levels, '+', trailing and parent-level '#', and deliveries at QoS 0/1/2 via registered, short and predefined IDs against the real client; every (filter, topic) pair of up to 2 levels is enumerated with a single subscription; oracle: a reference MQTT 3.1.1 topic matcher decides which callbacks may run (exactly one matching, none otherwise, none after Unsubscribe, QoS 2 at PUBREL). In half of the QoS 2 deliveries 1-2 Subscribe/Unsubscribe calls complete between PUBREC and PUBREL; the subscriptions current at the PUBREL decide. A fifth of the subscriptions are refused by the gateway (not a current subscription); a died client process is a violation.",
        note=_CL_NOTE, technique="model-based PBT against a reference matcher; exhaustive for <= 2 levels"),
    "C28": dict(
        text="Exploration: every API call (alone or two at the same instant) against an adversarial scripted gateway whose behaviour per datagram is drawn (silence at any step, wrong IDs/types, unsolicited packets, DISCONNECT, undecodable datagrams, duplicates), with and without keep-alive, with time advances around keep-alive ticks; oracle: each call returns within its bound on the virtual clock, and after Close or an unsolicited gateway DISCONNECT a goroutine census finds no client goroutine; goroutines still blocked at the end of a case are reported by the bubble itself. Gateway behaviours include a PUBREC repeated every 300 ms for 12 s with the PUBCOMP never sent. Unsolicited packets include a REGISTER of the client's own registered name under another or the same topic ID; Publish also goes to that name; eager gateway in 4 of 7 cases; a mutex deadlock is a verdict (watchdog).",
        note=_CL_NOTE + " Hangs are decided up to 10x the bound.", technique="stateful PBT with an adversarial peer; bounded-liveness oracle on a virtual clock; goroutine census"),
})
CHECKS["C33"] = dict(parts=[part("client-keepalive", "cl", "TestC33", 3000, 200_000)])
META.update({
    "C33": dict(
        text="Exploration: real client with KeepAlive 2-30 s against a scripted gateway that drops selected ping transmissions within the retry budget; API calls (Sleep, Disconnect, Publish, Subscribe, Register, reconnect) at times drawn relative to the keep-alive period (exact tick, +-1 ns, +-1 ms, mid-period); a client-state model replayed over the timeline checks: consecutive keep-alive PINGREQs at most KeepAlive apart while active, none (original or retransmitted) while asleep or disconnected, and every concurrent call returns nil. The application's own Ping() is among the calls (its PINGREQs are dropped like the keep-alive ones). 'Once per KeepAlive period' is judged on complete periods counted from activation (not a sliding window); PINGRESPs 300-999 ms late; a stray duplicate PINGRESP inside the Sleep handshake; Ping() among the calls; eager gateway in 4 of 7 cases; a mutex deadlock is a verdict.",
        note=_CL_NOTE + " Events at exactly the instant of a state change are not ordered by the property and are tolerated.", technique="timed stateful PBT on a virtual clock with a client-state reference model"),
})
CHECKS["C31"] = dict(parts=[part("client-auth-after-connect", "cl", "TestC31Client", 2000, 100_000),
                            part("cli-refuses-plaintext", "cli", "TestC31CLI", 1, 1, qshards=12, tshards=12, random=False, needs_tools=True)])
CHECKS["C30"] = dict(parts=[part("predefined-config", "cli", "TestC30", 60, 2000, qshards=12, tshards=16, needs_tools=True),
                            part("mapping-in-process", "pure", "TestC30Map", 5000, 300_000)])
META.update({
    "C30": dict(
        text="Exploration: generated configurations (a YAML file with 0-3 client blocks from {'*', c1, c2} over IDs 1-4 and names that need YAML quoting, and/or 0-4 --predefined-topic options in both forms which overlap the file and each other, given by flags or by environment variables) are handed to the three real binaries built from the working tree. bisquitt is probed over loopback UDP with a PUBLISH on every predefined ID (topic seen by a harness broker, or session dropped); bisquitt-pub and bisquitt-sub run against a scripted UDP gateway and the way they address each name (predefined ID vs REGISTER/SUBSCRIBE by name) is read off the wire. Oracle: a model mapping = the file's, overridden entry by entry by the options in order, two-field options under '*'; every tool must agree with it and none may refuse a valid configuration. In-process part: the three calls every tool makes (read file, parse options, merge) over 5000 configurations per quick run, ID -> name exact and name -> ID sound and complete against the statement's mapping; files include empty documents and empty client blocks in all YAML spellings.",
        note="Process-level check on real sockets and real time; a liveness timeout is inconclusive (the case is skipped and counted; more than half skipped = exit 2), never a violation. Binaries are built with go1.26.8 through the harness module, without the verif tag having any effect on them (no hooks in cmd/). An ID chosen by a tool passes if the model maps it back to the requested name for this client, so C05's shadowing question is not double-reported.",
        technique="PBT over configurations (rapid) with a merged-mapping reference model; differential across the three binaries via wire probes; the same model against the tools' library calls in-process"),
    "C31": dict(
        text="Exploration: (b) the real client library with/without a configured user, will on/off, a gateway that ignores 0..RetryCount+1 CONNECTs, repeated Connect calls and further API traffic: no AUTH datagram ever without a user; with a user every CONNECT datagram (first and retried) is immediately followed by an AUTH carrying exactly the configured credentials. (a) the three command-line tools over the exhaustive flag/environment matrix are checked by the part cli-refuses-plaintext. A client tool with credentials and --dtls whose handshake the peer refuses (fatal alert) is watched for 2.5 s: no CONNECT/AUTH may follow in clear UDP.",
        note=_CL_NOTE, technique="PBT over client configurations and connect-retry schedules; exhaustive enumeration of the CLI flag matrix"),
})
CHECKS["C05"] = dict(parts=[part("predefined-lookups", "pure", "TestC05", 20_000, 2_000_000)])
CHECKS["C19"] = dict(parts=[part("budgets-exact", "pure", "TestC19", 5000, 500_000),
                            part("progress-at-timer-instant", "pure", "TestC19Coincide", 3000, 300_000),
                            part("client-connect-timeout", "cl", "TestC19Connect", 2000, 150_000),
                            part("client-retry-schedule", "cl", "TestC19Retry", 2000, 150_000)])
CHECKS["C29"] = dict(parts=[part("id-sequence", "pure", "TestC29Seq", 2000, 100_000, race=True, death_is_violation=True, death_kind="data-race-or-crash/id-sequence", env={"GORACE": "halt_on_error=1"}),
                            part("store-linearizable", "pure", "TestC29Store", 2000, 200_000, race=True, death_is_violation=True, death_kind="data-race-or-crash/store", env={"GORACE": "halt_on_error=1"})])
CHECKS["C18"] = dict(parts=[part("finished-stays-finished", "pure", "TestC18", 5000, 300_000, race=True, death_is_violation=True, death_kind="panic-or-data-race/transaction", env={"GORACE": "halt_on_error=1"}),
                            part("timer-fired-then-finished", "pure", "TestC18Parked", 3000, 200_000, race=True, death_is_violation=True, death_kind="panic-or-data-race/transaction", env={"GORACE": "halt_on_error=1"}),
                            part("sleep-transaction", "cl", "TestC18Sleep", 1500, 100_000, race=True, death_is_violation=True, death_kind="panic-or-data-race/sleep-transaction", env={"GORACE": "halt_on_error=1"})])
_PURE_NOTE = "Pure library code called in-process; no hooks needed. Built with go1.26.8."
META.update({
    "C05": dict(
        text="Exploration: all 256 predefined maps over clients {'*',a} x IDs {1,2} x names {x,y,the empty name,absent} (exhaustive) plus the repository's own topics.yaml, then random maps over 4 clients, 8 IDs, 5 names and the empty name, each queried for every client, ID and name; oracle: GetTopicName equals a reference lookup (client entry, else '*' entry) and every ID GetTopicID returns maps back to the queried name for that client (queries repeated, the implementation iterates Go maps).",
        note=_PURE_NOTE, technique="exhaustive enumeration of the small sub-space + PBT; oracle = reference lookup and a round-trip relation"),
    "C18": dict(
        text="Exploration (race-detector build, virtual clock): generated schedules in which Success/Fail/Proceed/context-cancel are released together on separate goroutines at instants that coincide with timer expiries, with zero and minimal delays and failing retry callbacks; oracle: completion callback exactly once, Err() stable after Done, no retry after a quiescent point with Done closed, no panic, no race report (process death is attributed to the case written to disk beforehand). Second part, schedule owned by the harness: the k-th retry timer has fired but its function is parked at its entry (verif-tagged hook holding the lock it takes first) while Success/Fail finishes the transaction at that very instant; after the release no retry callback may run, Err() stays, the completion callback ran once.",
        note=_PURE_NOTE.replace("no hooks needed", "one hook (transactions.VerifHoldTimer, second part only)") + " A bubble fixes time but not the order of goroutines runnable at the same instant: the race detector reports unordered conflicting accesses whether or not the bad overlap happened in that run; interleavings that need several specific context switches may be missed.",
        technique="PBT over racing operation schedules under the race detector and synctest; history invariants as oracle; one schedule (timer fired, function not yet run) owned by the harness through a hook"),
    "C19": dict(
        text="Exploration: retry and timed transactions on the virtual clock with one driver goroutine; RetryCount 0-6, delays 1 ms..60 s, progress events and the final completion at offsets that never coincide with a timer instant (small space enumerated); the oracle is exact on virtual timestamps: callbacks at T+d..T+c*d after the last progress, 'no more retries' at T+(c+1)*d, 'timeout' exactly at the timeout, nothing after completion. Client-level parts: the connect exchange is timed by ConnectTimeout; the last step of Publish QoS 1/2, Subscribe, Register goes out RetryCount+1 times RetryDelay apart and fails one RetryDelay later whatever non-progress (duplicate PUBRECs, stale acknowledgements) arrives in between.",
        note=_PURE_NOTE + " Two parts drive the real client on an in-memory link instead.", technique="PBT with an exact timing model on a virtual clock (testing/synctest); partial exhaustive enumeration"),
    "C29": dict(
        text="Exploration: the ID sequence against a counter model exhaustively for all small ranges, ranges ending at 0xFFFF and the full range, and concurrently (2-8 goroutines, race-detector build) by comparing the multiset of results with the model's first N outputs; the transaction store and ClientState by recording generated concurrent programs with call/return times and deciding linearizability against an atomic map / register with porcupine.",
        note=_PURE_NOTE + " Real goroutines on real cores: which overlaps occur is up to the scheduler; the race detector reports unsynchronised accesses regardless.",
        technique="model-based testing (exhaustive small ranges) + concurrent PBT with a linearizability checker (porcupine) under the race detector"),
})
CHECKS["C26"] = dict(parts=[part("interop", "e2e", "TestC26", 2000, 150_000)])
META.update({
    "C26": dict(
        text="Exploration: generated API-call scripts (3-25 steps: connect with/without will and auth, register, subscribe of every form, publish at QoS -1..2 on every topic form, unsubscribe, ping, repeated sleep cycles with broker publishes injected during the sleep, reconnect, disconnect) run with the real client against a real gateway session and a conforming broker model over a lossless in-memory link; oracle: every call returns nil, subscriptions and published messages are at the broker exactly as requested, and every injected broker message that matches a live subscription (single messages and bursts, also on not-yet-registered topics under a wildcard) runs a handler exactly once with the broker's topic. A fifth of the subscriptions to filters not subscribed yet are refused by the broker (SUBACK 0x80): the call must report it and nothing else may change. Predefined topics are also used by NAME (Register / Subscribe / Publish).",
        note="Real client and real gateway session wired together in one testing/synctest bubble (verif-tagged hooks for dial and session start); the broker model (harness/e2e) and the reference matcher are trusted. Sleeps stay below RetryDelay so the C11 known finding does not interfere.",
        technique="model-based end-to-end PBT (API-call sequences) against a broker reference model; virtual time"),
})
CHECKS["C16"] = dict(parts=[part("delivery-under-loss", "e2e", "TestC16", 2000, 150_000)])
CHECKS["C32"] = dict(parts=[part("routing-consistent", "e2e", "TestC32", 2000, 150_000)])
_E2E_NOTE = "Real client and real gateway session wired together in one testing/synctest bubble (verif-tagged hooks for dial and session start), conforming broker model behind the gateway (harness/e2e, trusted)."
META.update({
    "C16": dict(
        text="Exploration: generated fault plans per datagram type of the QoS 1 and QoS 2 delivery flows (REGISTER/REGACK step included): losses of requests and acknowledgements within the retry budget, or beyond it, and duplicates with delays up to 25 s, between the real gateway and the real subscribed client; oracle: within budget the handler runs (QoS 1: at least once, broker gets exactly one PUBACK; QoS 2: exactly once, the exchange completes at the broker), every retransmission repeats message ID, payload and sets DUP, and a step whose budget is exceeded sends exactly RetryCount+1 copies and then stays silent. In a third of the new-topic cases 1-2 further messages follow on the same new topic at the same instant.",
        note=_E2E_NOTE, technique="fault-injection PBT (loss/duplication plans per flow step) on a virtual clock; delivery/ack model as oracle"),
    "C32": dict(
        text="Exploration: generated shared predefined configurations (overlaps and shadowing between '*' and client entries, client inside/outside the map) and operations with predefined IDs, 2-octet names over all valid byte values, and the bisquitt-pub/-sub decision logic; oracle: the broker sees exactly the topic name the client meant by its own lookup, and the handler is told exactly the broker's topic. Client IDs of 23, 24, 30 octets and non-ASCII, a second client whose ID is a prefix of the first; wildcard subscriptions; names of one octet; broker publishes aimed at subscribed names.",
        note=_E2E_NOTE, technique="end-to-end PBT; oracle = name-meant vs name-seen equality"),
})
