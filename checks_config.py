# Per-property configuration of the driver: which compiled test (package +
# test function) decides the property, how many generated cases per tier, and
# how many shard processes. Case counts, not time limits, bound every run.

def part(name, pkg, test, quick, thorough, qshards=4, tshards=16, **kw):
    d = dict(name=name, pkg=pkg, test=test,
             quick=dict(checks=quick, shards=qshards, timeout=kw.pop("qtimeout", 300)),
             thorough=dict(checks=thorough, shards=tshards, timeout=kw.pop("ttimeout", 3000)))
    d.update(kw)
    return d

CHECKS = {
    "C20": dict(parts=[part("decode-no-panic", "codec", "TestC20", 200_000, 20_000_000)]),
    "C21": dict(parts=[part("roundtrip", "codec", "TestC21", 100_000, 10_000_000),
                       part("short-bijection", "codec", "TestC21Short", 1, 1, qshards=1, tshards=1, random=False)]),
    "C22": dict(parts=[part("decode-faithful", "codec", "TestC22", 300_000, 30_000_000)]),
}

# Manifest metadata (tools/gen_manifest.py turns this into MANIFEST.json).
META = {
    "C20": dict(
        text="Exploration: every byte string of length 0-2 (quick) / 0-3 (thorough) is decoded exhaustively, then hundreds of thousands (millions in the thorough tier) of structurally generated datagrams -- all 28 types with tampered header form, lying length fields, truncation, extension, AUTH method-length overruns -- go through packets1.ReadPacket under recover(); the oracle is 'returns (packet,nil) or (nil,error), never panics'. No claim of absence beyond the enumerated lengths.",
        note="Trusts the harness's one-datagram reader to model a UDP/DTLS read; the decoded packet's String() is exercised too (logging path).",
        technique="exhaustive enumeration of short inputs + structural PBT (rapid) with shrinking"),
    "C21": dict(
        text="Exploration: generated packets of all 28 types with legal field values are encoded by the implementation, compared byte-for-byte with an independent reference encoder written from the MQTT-SN 1.2 tables, checked for the length-field rules, decoded again and compared field by field; the short-topic bijection is checked exhaustively over all 65536 IDs.",
        note="The reference codec (harness/snref) is trusted; it was written from the specification, not from the code.",
        technique="round-trip + differential against a reference encoder (rapid), exhaustive for short topic IDs"),
    "C22": dict(
        text="Exploration: every datagram the decoder accepts (from the C20 input space) is parsed independently by the reference decoder using the actual header form; every field must agree and re-encoding must reproduce type and body modulo the three differences the property allows.",
        note="Where the length field disagrees with the datagram size both readings of the body are accepted; the reference decoder is trusted.",
        technique="differential decoding against a reference decoder + re-encode relation (rapid), exhaustive for lengths <= 2/3"),
}
NOT_APPLICABLE = {}
