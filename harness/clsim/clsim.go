// Package clsim drives the real bisquitt client library (through its
// verif-tagged dial hook) over an in-memory datagram link inside a
// testing/synctest bubble. The gateway on the other end is scripted: it answers
// from protocol knowledge only, under a policy (answer / stay silent / lose the
// acknowledgement / duplicate it) that the case draws. Blocking API calls run on
// their own goroutines; their return time and error are recorded.
package clsim

import (
	"runtime"
	"fmt"
	"net"
	"strings"
	"sync"
	"testing/synctest"
	"time"

	"github.com/energomonitor/bisquitt/client"
	pkts1 "github.com/energomonitor/bisquitt/packets1"
	"github.com/energomonitor/bisquitt/topics"
	"github.com/energomonitor/bisquitt/util"

	"verif/harness/memnet"
	"verif/harness/snref"
)

type Config struct {
	ClientID         string                       `json:"client_id"`
	User             string                       `json:"user,omitempty"`
	Password         []byte                       `json:"password,omitempty"`
	WillTopic        string                       `json:"will_topic,omitempty"`
	WillPayload      []byte                       `json:"will_payload,omitempty"`
	WillQoS          uint8                        `json:"will_qos,omitempty"`
	WillRetained     bool                         `json:"will_retained,omitempty"`
	CleanSession     bool                         `json:"clean,omitempty"`
	KeepAliveMs      int                          `json:"keepalive_ms,omitempty"`
	ConnectTimeoutMs int                          `json:"connect_timeout_ms"`
	RetryDelayMs     int                          `json:"retry_ms"`
	RetryCount       uint                         `json:"retries"`
	Predef           map[string]map[uint16]string `json:"predef,omitempty"`
}

// Call is one API call.
type Call struct {
	API     string `json:"api"` // Connect Register Subscribe SubscribePredefined Unsubscribe UnsubscribePredefined Publish PublishPredefined Ping Sleep Disconnect Close
	Topic   string `json:"topic,omitempty"`
	TopicID uint16 `json:"tid,omitempty"`
	QoS     uint8  `json:"qos,omitempty"`
	Retain  bool   `json:"retain,omitempty"`
	Payload []byte `json:"payload,omitempty"`
	DurMs   int    `json:"dur_ms,omitempty"`
}

func (c Call) String() string {
	switch c.API {
	case "Register", "Unsubscribe":
		return fmt.Sprintf("%s(%q)", c.API, c.Topic)
	case "Subscribe":
		return fmt.Sprintf("Subscribe(%q, qos=%d)", c.Topic, c.QoS)
	case "SubscribePredefined", "UnsubscribePredefined":
		return fmt.Sprintf("%s(%d)", c.API, c.TopicID)
	case "Publish":
		return fmt.Sprintf("Publish(%q, len=%d, qos=%d, retain=%v)", c.Topic, len(c.Payload), c.QoS, c.Retain)
	case "PublishPredefined":
		return fmt.Sprintf("PublishPredefined(%d, len=%d, qos=%d)", c.TopicID, len(c.Payload), c.QoS)
	case "Sleep":
		return fmt.Sprintf("Sleep(%dms)", c.DurMs)
	}
	return c.API + "()"
}

// CallState tracks a running or finished API call.
type CallState struct {
	Call     Call
	StartNs  int64
	StartSeq int // number of events logged before the call started (orders same-instant events)
	EndNs    int64
	Returned bool
	Err      error
	done     chan struct{}
}

// Finished reports whether the call has returned (synchronised through the
// done channel, so that Err and EndNs may be read afterwards under the race detector).
func (c *CallState) Finished() bool {
	select {
	case <-c.done:
		return true
	default:
		return false
	}
}

func (c *CallState) ErrString() string {
	if c.Err == nil {
		return "<nil>"
	}
	return c.Err.Error()
}

// Delivery is one invocation of a subscription callback.
type Delivery struct {
	Ns      int64
	Filter  string // the filter (or "#<id>" for a predefined subscription) whose callback ran
	Topic   string
	Payload []byte
	QoS     uint8
	Retain  bool
}

// Event is an entry of the timeline.
type Event struct {
	Ns   int64
	Kind string     // "C>G" datagram from the client, "G>C" datagram to the client, "CALL", "RET", "HANDLER"
	SN   *snref.Pkt // decoded datagram
	Raw  []byte
	Err  string // decode error of a client datagram
	Text string
	Auto bool // sent by the responder
}

func (e Event) String() string {
	t := fmt.Sprintf("%8.3fs %-7s", float64(e.Ns)/1e9, e.Kind)
	switch {
	case e.SN != nil:
		return t + " " + e.SN.String()
	case e.Raw != nil:
		return t + fmt.Sprintf(" raw % x (%s)", e.Raw, e.Err)
	}
	return t + " " + e.Text
}

type Sim struct {
	Cfg    Config
	Link   *memnet.Link
	Client *client.Client
	start  time.Time

	mu         sync.Mutex
	Events     []Event
	Deliveries []Delivery
	Calls      []*CallState

	// Respond, when set, is asked for the gateway's answer to every client
	// datagram (in order); it returns the datagrams to send back.
	Respond func(p snref.Pkt) []snref.Pkt

	activity chan struct{} // signalled whenever the client writes a datagram
	ccfg     *client.ClientConfig

	// respMu serialises collect + Respond: with an eager gateway (SetEager) they also run on the
	// client's writing goroutines
	respMu sync.Mutex
}

// SetEager makes the scripted gateway answer the moment the client writes a datagram - from the
// link's write hook, while the writing goroutine is still inside the write (it then yields that
// many times: a write is a system call) - instead of when the client has come to rest: a gateway
// on a fast link. yield < 0: back to normal.
func (s *Sim) SetEager(yield int) {
	signal := func([]byte) {
		select {
		case s.activity <- struct{}{}:
		default:
		}
	}
	if yield < 0 {
		s.Link.OnWrite = signal
		return
	}
	s.Link.OnWrite = func(b []byte) {
		signal(b)
		s.respMu.Lock()
		s.respondTo(s.collect())
		s.respMu.Unlock()
		for i := 0; i < yield; i++ {
			runtime.Gosched()
		}
	}
}

// respondTo lets the responder answer the given client datagrams (respMu held).
func (s *Sim) respondTo(evs []Event) (sent bool) {
	if s.Respond == nil {
		return false
	}
	for _, e := range evs {
		if e.SN == nil {
			continue
		}
		for _, rp := range s.Respond(*e.SN) {
			s.GatewaySend(rp, true)
			sent = true
		}
	}
	return
}

func (s *Sim) Now() int64 { return int64(time.Since(s.start)) }

func (s *Sim) log(e Event) {
	s.mu.Lock()
	e.Ns = s.Now()
	s.Events = append(s.Events, e)
	s.mu.Unlock()
}

// Start creates the client and dials (inside a bubble).
func Start(cfg Config, logger util.Logger) (*Sim, error) {
	s := &Sim{Cfg: cfg, Link: memnet.NewDatagram("cl"), start: time.Now(), activity: make(chan struct{}, 1)}
	s.Link.OnWrite = func([]byte) {
		select {
		case s.activity <- struct{}{}:
		default:
		}
	}
	predef := topics.PredefinedTopics{}
	for c, m := range cfg.Predef {
		for id, n := range m {
			predef.Add(c, n, id)
		}
	}
	ccfg := &client.ClientConfig{
		ClientID: cfg.ClientID, User: cfg.User, Password: cfg.Password, CleanSession: cfg.CleanSession,
		WillTopic: cfg.WillTopic, WillPayload: cfg.WillPayload, WillQOS: cfg.WillQoS, WillRetained: cfg.WillRetained,
		KeepAlive:      time.Duration(cfg.KeepAliveMs) * time.Millisecond,
		ConnectTimeout: time.Duration(cfg.ConnectTimeoutMs) * time.Millisecond,
		RetryDelay:     time.Duration(cfg.RetryDelayMs) * time.Millisecond,
		RetryCount:     cfg.RetryCount, PredefinedTopics: predef,
	}
	if logger == nil {
		logger = util.NoOpLogger{}
	}
	s.ccfg = ccfg
	s.Client = client.NewClient(logger, ccfg)
	s.Client.VerifSetDialFunc(func() (net.Conn, error) { return s.Link.Conn(), nil })
	if err := s.Client.Dial("memnet:0"); err != nil {
		return nil, err
	}
	return s, nil
}

// handler makes the callback of a subscription; it records every invocation.
func (s *Sim) handler(filter string) client.MessageHandlerFunc {
	return func(_ *client.Client, topic string, pkt *pkts1.Publish) {
		s.mu.Lock()
		s.Deliveries = append(s.Deliveries, Delivery{Ns: s.Now(), Filter: filter, Topic: topic, Payload: append([]byte(nil), pkt.Data...), QoS: pkt.QOS, Retain: pkt.Retain})
		s.Events = append(s.Events, Event{Ns: s.Now(), Kind: "HANDLER", Text: fmt.Sprintf("callback of %q ran for topic %q payload %q", filter, topic, pkt.Data)})
		s.mu.Unlock()
	}
}

// Go starts an API call on its own goroutine.
func (s *Sim) Go(c Call) *CallState {
	cs := &CallState{Call: c, StartNs: s.Now(), done: make(chan struct{})}
	s.mu.Lock()
	cs.StartSeq = len(s.Events)
	s.Calls = append(s.Calls, cs)
	s.mu.Unlock()
	s.log(Event{Kind: "CALL", Text: c.String()})
	go func() {
		var err error
		cl := s.Client
		switch c.API {
		case "Connect":
			err = cl.Connect()
		case "Register":
			err = cl.Register(c.Topic)
		case "Subscribe":
			err = cl.Subscribe(c.Topic, c.QoS, s.handler(c.Topic))
		case "SubscribePredefined":
			err = cl.SubscribePredefined(c.TopicID, c.QoS, s.handler(fmt.Sprintf("#%d", c.TopicID)))
		case "Unsubscribe":
			err = cl.Unsubscribe(c.Topic)
		case "UnsubscribePredefined":
			err = cl.UnsubscribePredefined(c.TopicID)
		case "Publish":
			err = cl.Publish(c.Topic, c.Payload, c.QoS, c.Retain)
		case "PublishPredefined":
			err = cl.PublishPredefined(c.TopicID, c.Payload, c.QoS, c.Retain)
		case "Ping":
			err = cl.Ping()
		case "Sleep":
			err = cl.Sleep(time.Duration(c.DurMs) * time.Millisecond)
		case "Disconnect":
			err = cl.Disconnect()
		case "Close":
			err = cl.Close()
		default:
			err = fmt.Errorf("harness: unknown API %q", c.API)
		}
		cs.Err, cs.EndNs, cs.Returned = err, s.Now(), true
		s.log(Event{Kind: "RET", Text: fmt.Sprintf("%s -> %v", c.String(), err)})
		close(cs.done)
	}()
	return cs
}

// GatewaySend injects a datagram from the gateway.
func (s *Sim) GatewaySend(p snref.Pkt, auto bool) {
	pp := p
	s.log(Event{Kind: "G>C", SN: &pp, Auto: auto})
	s.Link.Send(snref.Encode(p))
}

func (s *Sim) GatewaySendRaw(b []byte) {
	e := Event{Kind: "G>C", Raw: b}
	if p, _, err := snref.Decode(b, false); err == nil {
		e.SN, e.Raw = &p, nil
	}
	s.log(e)
	s.Link.Send(b)
}

// collect moves new client datagrams into the timeline and returns them.
func (s *Sim) collect() []Event {
	var out []Event
	for _, r := range s.Link.Take() {
		e := Event{Kind: "C>G", Ns: int64(r.T.Sub(s.start))}
		if p, _, err := snref.Decode(r.Data, false); err == nil {
			e.SN = &p
		} else {
			e.Raw, e.Err = r.Data, err.Error()
		}
		s.mu.Lock()
		s.Events = append(s.Events, e)
		s.mu.Unlock()
		out = append(out, e)
	}
	return out
}

// Settle waits for quiescence, collecting client datagrams and letting the
// responder answer, until nothing more happens at this instant.
func (s *Sim) Settle() {
	for i := 0; i < 500; i++ {
		synctest.Wait()
		s.respMu.Lock()
		sent := s.respondTo(s.collect())
		s.respMu.Unlock()
		if !sent {
			return
		}
	}
}

// Advance lets virtual time pass. The harness sleeps until the client writes a
// datagram (then the scripted gateway answers at that very instant) or until
// the time is up, so long horizons cost nothing.
func (s *Sim) Advance(d time.Duration) {
	end := time.Now().Add(d)
	for {
		s.Settle()
		left := time.Until(end)
		if left <= 0 {
			return
		}
		tm := time.NewTimer(left)
		select {
		case <-s.activity:
			tm.Stop()
		case <-tm.C:
		}
	}
}

// WaitCall lets virtual time pass until the call returns or max elapses.
func (s *Sim) WaitCall(cs *CallState, max time.Duration) bool {
	end := time.Now().Add(max)
	for {
		s.Settle()
		if cs.Finished() {
			return true
		}
		left := time.Until(end)
		if left <= 0 {
			return false
		}
		tm := time.NewTimer(left)
		select {
		case <-cs.done:
			tm.Stop()
		case <-s.activity:
			tm.Stop()
		case <-tm.C:
		}
	}
}

// Shutdown closes the gateway side of the link (the client's receive loop then
// ends with an error) and gives the client time to unwind. Goroutines that stay
// blocked after that make the bubble report a deadlock (see vf).
func (s *Sim) Shutdown() {
	s.Link.Close()
	time.Sleep(3 * time.Second)
	synctest.Wait()
	s.collect()
}

// Dump renders the tail of the timeline.
func (s *Sim) Dump(max int) string {
	s.mu.Lock()
	defer s.mu.Unlock()
	ev := s.Events
	var sb strings.Builder
	if len(ev) > max {
		fmt.Fprintf(&sb, "... %d earlier events\n", len(ev)-max)
		ev = ev[len(ev)-max:]
	}
	for _, e := range ev {
		sb.WriteString(e.String())
		sb.WriteByte('\n')
	}
	return sb.String()
}

// ClientDatagrams returns all datagrams the client sent so far.
func (s *Sim) ClientDatagrams() []Event {
	s.mu.Lock()
	defer s.mu.Unlock()
	var out []Event
	for _, e := range s.Events {
		if e.Kind == "C>G" {
			out = append(out, e)
		}
	}
	return out
}

// ClientDatagramsSince returns the datagrams the client has sent after the first seq
// events of the log (CallState.StartSeq: after that call started).
func (s *Sim) ClientDatagramsSince(seq int) []Event {
	s.mu.Lock()
	defer s.mu.Unlock()
	var out []Event
	for i, e := range s.Events {
		if i >= seq && e.Kind == "C>G" {
			out = append(out, e)
		}
	}
	return out
}

// Gateway is a cooperative scripted gateway: it answers every request properly
// and hands out topic IDs from its own counter. Policies wrap it.
type Gateway struct {
	NextTopicID uint16
	Names       map[string]uint16 // registered name -> ID
	ConnackRC   byte
	SubackRC    byte
	GrantQoS    int // -1: grant what was asked
	Will        bool
	Predef      map[string]map[uint16]string
	pendingWill bool
}

func NewGateway() *Gateway { return &Gateway{NextTopicID: 1, Names: map[string]uint16{}, GrantQoS: -1} }

func (g *Gateway) idFor(name string) uint16 {
	if id, ok := g.Names[name]; ok {
		return id
	}
	id := g.NextTopicID
	g.NextTopicID++
	g.Names[name] = id
	return id
}

// Answer gives the proper reply to a client datagram.
func (g *Gateway) Answer(p snref.Pkt) []snref.Pkt {
	switch p.Type {
	case snref.CONNECT:
		if p.Will {
			g.pendingWill = true
			return []snref.Pkt{{Type: snref.WILLTOPICREQ}}
		}
		return []snref.Pkt{{Type: snref.CONNACK, RC: g.ConnackRC}}
	case snref.WILLTOPIC:
		return []snref.Pkt{{Type: snref.WILLMSGREQ}}
	case snref.WILLMSG:
		g.pendingWill = false
		return []snref.Pkt{{Type: snref.CONNACK, RC: g.ConnackRC}}
	case snref.AUTH:
		return nil
	case snref.REGISTER:
		return []snref.Pkt{{Type: snref.REGACK, TopicID: g.idFor(p.TopicName), MsgID: p.MsgID}}
	case snref.SUBSCRIBE:
		r := snref.Pkt{Type: snref.SUBACK, MsgID: p.MsgID, RC: g.SubackRC, QoS: p.QoS}
		if g.GrantQoS >= 0 {
			r.QoS = byte(g.GrantQoS)
		}
		switch p.TIT {
		case snref.TITNormal:
			if !strings.ContainsAny(p.TopicName, "+#") {
				r.TopicID = g.idFor(p.TopicName)
			}
		case snref.TITPredefined:
			r.TopicID = p.TopicID
		}
		return []snref.Pkt{r}
	case snref.UNSUBSCRIBE:
		return []snref.Pkt{{Type: snref.UNSUBACK, MsgID: p.MsgID}}
	case snref.PUBLISH:
		switch p.QoS {
		case 1:
			return []snref.Pkt{{Type: snref.PUBACK, TopicID: p.TopicID, MsgID: p.MsgID}}
		case 2:
			return []snref.Pkt{{Type: snref.PUBREC, MsgID: p.MsgID}}
		}
	case snref.PUBREL:
		return []snref.Pkt{{Type: snref.PUBCOMP, MsgID: p.MsgID}}
	case snref.PINGREQ:
		return []snref.Pkt{{Type: snref.PINGRESP}}
	case snref.DISCONNECT:
		return []snref.Pkt{{Type: snref.DISCONNECT, NoDuration: true}}
	}
	return nil
}

// SetRetryDelay overrides the client's RetryDelay (Config carries milliseconds only).
func (s *Sim) SetRetryDelay(d time.Duration) { s.ccfg.RetryDelay = d }
