// Package e2e wires the real client library to a real gateway session over
// in-memory links (with an optional fault plan on the MQTT-SN link) and puts a
// small conforming MQTT 3.1.1 broker model behind the gateway, all inside one
// testing/synctest bubble.
package e2e

import (
	"fmt"
	"sync"
	"testing/synctest"
	"time"

	"verif/harness/clsim"
	"verif/harness/gwsim"
	"verif/harness/mqttref"
	"verif/harness/snref"
)

// Fate of one datagram on the MQTT-SN link.
type Fate struct {
	Copies  int           // 0 = lost, 1 = delivered, 2+ = duplicated
	DelayMs int           // extra delay of the copies after the first
}

// Plan decides the fate of every datagram; dir is "C>G" or "G>C".
type Plan func(dir string, p snref.Pkt, raw []byte) Fate

type Wire struct {
	Ns   int64
	Dir  string
	SN   snref.Pkt
	Raw  []byte
	Fate Fate
}

func (w Wire) String() string {
	f := ""
	switch {
	case w.Fate.Copies == 0:
		f = "  [LOST]"
	case w.Fate.Copies > 1:
		f = fmt.Sprintf("  [x%d]", w.Fate.Copies)
	}
	return fmt.Sprintf("%8.3fs %s %v%s", float64(w.Ns)/1e9, w.Dir, w.SN, f)
}

// Message is a PUBLISH the broker received from the gateway.
type Message struct {
	Ns      int64
	Topic   string
	Payload []byte
	QoS     byte
	Retain  bool
	Dup     bool
	MsgID   uint16
}

// Broker is a minimal conforming MQTT 3.1.1 server for one connection.
type Broker struct {
	mu        sync.Mutex
	send      func([]byte)
	now       func() int64
	parser    mqttref.Parser
	Connects  []mqttref.Pkt
	Connected bool
	Subs      map[string]byte // filter -> granted QoS
	Received  []Message       // PUBLISHes from the client side, completed (QoS 2: at PUBREL)
	pendingQ2 map[uint16]Message
	nextID    uint16
	// Outgoing deliveries: message ID -> state ("puback" / "pubrec" / "pubcomp" awaited, "done")
	Out        map[uint16]string
	Pubacks    []uint16
	Pubcomps   []uint16
	Invalid    []string // packets that violate MQTT 3.1.1
	Disconnect bool
	Pings      int
	ConnackRC  byte
	// Refuse: filters whose SUBSCRIBE the broker answers with 0x80 (e.g. no permission).
	Refuse map[string]bool
}

func newBroker(send func([]byte), now func() int64) *Broker {
	return &Broker{send: send, now: now, Subs: map[string]byte{}, pendingQ2: map[uint16]Message{}, Out: map[uint16]string{}, nextID: 0}
}

func (b *Broker) reply(p mqttref.Pkt) { b.send(mqttref.Encode(p)) }

// feed handles bytes written by the gateway.
func (b *Broker) feed(data []byte) {
	b.mu.Lock()
	defer b.mu.Unlock()
	for _, p := range b.parser.Feed(data) {
		for _, is := range mqttref.ValidateFromClient(p) {
			b.Invalid = append(b.Invalid, fmt.Sprintf("%v: %s [%s]", p, is.Msg, is.Clause))
		}
		switch p.Type {
		case mqttref.CONNECT:
			b.Connects = append(b.Connects, p)
			b.Connected = b.ConnackRC == 0
			b.reply(mqttref.Pkt{Type: mqttref.CONNACK, RC: b.ConnackRC})
		case mqttref.SUBSCRIBE:
			codes := make([]byte, len(p.Filters))
			for i, f := range p.Filters {
				q := p.QoSs[i] & 3
				if q == 3 || b.Refuse[f] {
					codes[i] = 0x80
					continue
				}
				b.Subs[f] = q
				codes[i] = q
			}
			b.reply(mqttref.Pkt{Type: mqttref.SUBACK, MsgID: p.MsgID, Codes: codes})
		case mqttref.UNSUBSCRIBE:
			for _, f := range p.Filters {
				delete(b.Subs, f)
			}
			b.reply(mqttref.Pkt{Type: mqttref.UNSUBACK, MsgID: p.MsgID})
		case mqttref.PUBLISH:
			m := Message{Ns: b.now(), Topic: p.Topic, Payload: append([]byte(nil), p.Payload...), QoS: p.QoS, Retain: p.Retain, Dup: p.Dup, MsgID: p.MsgID}
			switch p.QoS {
			case 0:
				b.Received = append(b.Received, m)
			case 1:
				b.Received = append(b.Received, m)
				b.reply(mqttref.Pkt{Type: mqttref.PUBACK, MsgID: p.MsgID})
			case 2:
				if _, dup := b.pendingQ2[p.MsgID]; !dup {
					b.pendingQ2[p.MsgID] = m
				}
				b.reply(mqttref.Pkt{Type: mqttref.PUBREC, MsgID: p.MsgID})
			}
		case mqttref.PUBREL:
			if m, ok := b.pendingQ2[p.MsgID]; ok {
				delete(b.pendingQ2, p.MsgID)
				b.Received = append(b.Received, m)
			}
			b.reply(mqttref.Pkt{Type: mqttref.PUBCOMP, MsgID: p.MsgID})
		case mqttref.PUBACK:
			b.Pubacks = append(b.Pubacks, p.MsgID)
			if b.Out[p.MsgID] == "puback" {
				b.Out[p.MsgID] = "done"
			}
		case mqttref.PUBREC:
			if b.Out[p.MsgID] == "pubrec" {
				b.Out[p.MsgID] = "pubcomp"
			}
			b.reply(mqttref.Pkt{Type: mqttref.PUBREL, MsgID: p.MsgID})
		case mqttref.PUBCOMP:
			b.Pubcomps = append(b.Pubcomps, p.MsgID)
			if b.Out[p.MsgID] == "pubcomp" {
				b.Out[p.MsgID] = "done"
			}
		case mqttref.PINGREQ:
			b.Pings++
			b.reply(mqttref.Pkt{Type: mqttref.PINGRESP})
		case mqttref.DISCONNECT:
			b.Disconnect = true
		}
	}
}

// Publish delivers a message "from another client" to the connection if a
// subscription matches; it returns the message ID used (0 for QoS 0) and
// whether it was delivered.
func (b *Broker) Publish(topic string, payload []byte, qos byte, retain bool) (uint16, bool) {
	b.mu.Lock()
	defer b.mu.Unlock()
	granted, ok := byte(0), false
	for f, q := range b.Subs {
		if mqttref.Match(f, topic) {
			ok = true
			if q > granted {
				granted = q
			}
		}
	}
	if !ok {
		return 0, false
	}
	if qos > granted {
		qos = granted
	}
	p := mqttref.Pkt{Type: mqttref.PUBLISH, Topic: topic, Payload: payload, QoS: qos, Retain: false}
	if qos > 0 {
		b.nextID++
		p.MsgID = b.nextID
		if qos == 1 {
			b.Out[p.MsgID] = "puback"
		} else {
			b.Out[p.MsgID] = "pubrec"
		}
	}
	b.reply(p)
	return p.MsgID, true
}

// Sim is the assembled system.
type Sim struct {
	CL     *clsim.Sim
	GW     *gwsim.Session
	Broker *Broker
	Plan   Plan
	start  time.Time

	mu       sync.Mutex
	Wire     []Wire
	activity chan struct{}
}

func (s *Sim) Now() int64 { return int64(time.Since(s.start)) }

func (s *Sim) kick() {
	select {
	case s.activity <- struct{}{}:
	default:
	}
}

// Start builds client, gateway session and broker (inside a bubble).
func Start(clCfg clsim.Config, gwCfg gwsim.Config) (*Sim, error) {
	s := &Sim{start: time.Now(), activity: make(chan struct{}, 1)}
	s.GW = gwsim.Start(gwCfg, nil, "e2e")
	s.Broker = newBroker(func(b []byte) { s.GW.MQ.Send(b) }, s.Now)
	s.GW.MQ.OnWrite = func(b []byte) { s.Broker.feed(b) }
	cl, err := clsim.Start(clCfg, nil)
	if err != nil {
		return nil, err
	}
	s.CL = cl
	carry := func(dir string, raw []byte, deliver func([]byte)) {
		p, _, err := snref.Decode(raw, false)
		f := Fate{Copies: 1}
		if err == nil && s.Plan != nil {
			f = s.Plan(dir, p, raw)
		}
		s.mu.Lock()
		s.Wire = append(s.Wire, Wire{Ns: s.Now(), Dir: dir, SN: p, Raw: raw, Fate: f})
		s.mu.Unlock()
		for i := 0; i < f.Copies; i++ {
			if i == 0 || f.DelayMs == 0 {
				deliver(raw)
			} else {
				cp := raw
				time.AfterFunc(time.Duration(f.DelayMs*i)*time.Millisecond, func() { deliver(cp) })
			}
		}
		s.kick()
	}
	cl.Link.OnWrite = func(b []byte) { carry("C>G", b, s.GW.SN.Send) }
	s.GW.SN.OnWrite = func(b []byte) { carry("G>C", b, cl.Link.Send) }
	return s, nil
}

func (s *Sim) Settle() { synctest.Wait() }

// Advance lets virtual time pass.
func (s *Sim) Advance(d time.Duration) {
	time.Sleep(d)
	synctest.Wait()
}

// WaitCall lets virtual time pass until the call returns or max elapses.
func (s *Sim) WaitCall(cs *clsim.CallState, max time.Duration) bool {
	end := time.Now().Add(max)
	for {
		synctest.Wait()
		if cs.Returned {
			return true
		}
		left := time.Until(end)
		if left <= 0 {
			return false
		}
		step := left
		if step > 200*time.Millisecond {
			step = 200 * time.Millisecond
		}
		time.Sleep(step)
	}
}

// Shutdown ends gateway session and client.
func (s *Sim) Shutdown() {
	s.GW.Cancel()
	s.CL.Link.Close()
	time.Sleep(3 * time.Second)
	synctest.Wait()
}

// Dump renders the tail of the wire log together with the client's call log.
func (s *Sim) Dump(max int) string {
	s.mu.Lock()
	defer s.mu.Unlock()
	type line struct {
		ns int64
		s  string
	}
	var ls []line
	for _, w := range s.Wire {
		ls = append(ls, line{w.Ns, w.String()})
	}
	for _, e := range s.CL.Events {
		if e.Kind == "CALL" || e.Kind == "RET" || e.Kind == "HANDLER" {
			ls = append(ls, line{e.Ns, e.String()})
		}
	}
	for i := 1; i < len(ls); i++ {
		for j := i; j > 0 && ls[j].ns < ls[j-1].ns; j-- {
			ls[j], ls[j-1] = ls[j-1], ls[j]
		}
	}
	if len(ls) > max {
		ls = ls[len(ls)-max:]
	}
	out := ""
	for _, l := range ls {
		out += l.s + "\n"
	}
	return out
}
