module verif/harness

go 1.26.8

require (
	github.com/energomonitor/bisquitt v0.0.0
	pgregory.net/rapid v1.3.0
)

replace github.com/energomonitor/bisquitt => /repo
