module verif/harness

go 1.26.8

require (
	github.com/anishathalye/porcupine v1.3.0
	github.com/energomonitor/bisquitt v0.0.0
	pgregory.net/rapid v1.3.0
)

require (
	github.com/eclipse/paho.mqtt.golang v1.3.5 // indirect
	github.com/pion/dtls/v2 v2.1.3 // indirect
	github.com/pion/logging v0.2.2 // indirect
	github.com/pion/transport v0.13.0 // indirect
	github.com/pion/udp v0.1.1 // indirect
	golang.org/x/crypto v0.0.0-20220314234724-5d542ad81a58 // indirect
	golang.org/x/sync v0.0.0-20210220032951-036812b2e83c // indirect
	golang.org/x/xerrors v0.0.0-20200804184101-5ec99f83aff1 // indirect
	gopkg.in/yaml.v3 v3.0.0-20210107192922-496545a6307b // indirect
)

replace github.com/energomonitor/bisquitt => /repo
