// Package gwgen has step constructors and rapid generators shared by the
// gateway-session properties.
package gwgen

import (
	"pgregory.net/rapid"

	"verif/harness/gwsim"
	"verif/harness/mqttref"
	"verif/harness/snref"
)

func SN(p snref.Pkt) gwsim.Step   { return gwsim.Step{K: "sn", SN: &p} }
func MQ(p mqttref.Pkt) gwsim.Step { return gwsim.Step{K: "mq", MQ: &p} }
func Adv(ms int64) gwsim.Step     { return gwsim.Step{K: "adv", D: ms} }
func Cancel() gwsim.Step          { return gwsim.Step{K: "cancel"} }
func MQClose() gwsim.Step         { return gwsim.Step{K: "mqclose"} }
func SetAuto(a gwsim.Auto) gwsim.Step { return gwsim.Step{K: "auto", Auto: &a} }

func Connect(cid string, dur uint16, will, clean bool) snref.Pkt {
	return snref.Pkt{Type: snref.CONNECT, ProtocolID: 1, Duration: dur, ClientID: []byte(cid), Will: will, Clean: clean}
}
func AuthPlain(user string, pass []byte) snref.Pkt {
	return snref.Pkt{Type: snref.AUTH, Method: "PLAIN", Data: snref.PlainAuth(user, pass)}
}
func WillTopic(name string, qos byte, retain bool) snref.Pkt {
	if name == "" {
		return snref.Pkt{Type: snref.WILLTOPIC, EmptyForm: true}
	}
	return snref.Pkt{Type: snref.WILLTOPIC, TopicName: name, QoS: qos, Retain: retain}
}
func WillMsg(b []byte) snref.Pkt { return snref.Pkt{Type: snref.WILLMSG, Data: b} }
func Disconnect(dur uint16) snref.Pkt {
	return snref.Pkt{Type: snref.DISCONNECT, Duration: dur, NoDuration: dur == 0}
}
func Pingreq(cid string) snref.Pkt {
	p := snref.Pkt{Type: snref.PINGREQ}
	if cid != "" {
		p.ClientID = []byte(cid)
	}
	return p
}
func Register(name string, mid uint16) snref.Pkt {
	return snref.Pkt{Type: snref.REGISTER, TopicName: name, MsgID: mid}
}
func Publish(tit byte, tid uint16, qos byte, mid uint16, data []byte) snref.Pkt {
	return snref.Pkt{Type: snref.PUBLISH, TIT: tit, TopicID: tid, QoS: qos, MsgID: mid, Data: data}
}
func SubscribeName(name string, qos byte, mid uint16) snref.Pkt {
	return snref.Pkt{Type: snref.SUBSCRIBE, TIT: snref.TITNormal, TopicName: name, QoS: qos, MsgID: mid}
}
func SubscribeID(tit byte, tid uint16, qos byte, mid uint16) snref.Pkt {
	return snref.Pkt{Type: snref.SUBSCRIBE, TIT: tit, TopicID: tid, QoS: qos, MsgID: mid}
}

func BPublish(topic string, qos byte, mid uint16, payload []byte, retain, dup bool) mqttref.Pkt {
	return mqttref.Pkt{Type: mqttref.PUBLISH, Topic: topic, QoS: qos, MsgID: mid, Payload: payload, Retain: retain, Dup: dup}
}

func U8(v byte) *byte { return &v }
func Str(s string) *string { return &s }

// Cfg draws a session configuration.
func Cfg(t *rapid.T) gwsim.Config {
	c := gwsim.Config{
		Auth:         rapid.Bool().Draw(t, "auth"),
		RetryDelayMs: rapid.SampledFrom([]int{1000, 2000, 10000}).Draw(t, "retry_ms"),
		RetryCount:   uint(rapid.IntRange(0, 4).Draw(t, "retries")),
	}
	switch rapid.IntRange(0, 2).Draw(t, "gwcreds") {
	case 1:
		c.GwUser = Str(rapid.SampledFrom([]string{"gwuser", ""}).Draw(t, "gwuser"))
	case 2:
		c.GwUser = Str("gwuser")
		c.GwPass = []byte(rapid.SampledFrom([]string{"gwpass", ""}).Draw(t, "gwpass"))
	}
	return c
}

// Predef draws a predefined-topic configuration with client-specific and "*"
// entries whose IDs and names overlap.
func Predef(t *rapid.T, clients []string, names []string) map[string]map[uint16]string {
	m := map[string]map[uint16]string{}
	for _, c := range append([]string{"*"}, clients...) {
		n := rapid.IntRange(0, 4).Draw(t, "npredef")
		for i := 0; i < n; i++ {
			id := rapid.SampledFrom([]uint16{1, 2, 3, 4, 5, 0xfffe}).Draw(t, "pid")
			if m[c] == nil {
				m[c] = map[uint16]string{}
			}
			m[c][id] = rapid.SampledFrom(names).Draw(t, "pname")
		}
	}
	return m
}

// LookupName is the reference predefined-topic lookup: the client's own entry
// wins over the "*" entry.
func LookupName(m map[string]map[uint16]string, client string, id uint16) (string, bool) {
	if e, ok := m[client]; ok {
		if n, ok := e[id]; ok {
			return n, true
		}
	}
	if e, ok := m["*"]; ok {
		if n, ok := e[id]; ok {
			return n, true
		}
	}
	return "", false
}
