// Package gwsim interprets a script (a JSON-serialisable list of steps) against
// one real gateway session running on in-memory links inside a
// testing/synctest bubble, and returns the complete timed trace of everything
// that crossed the MQTT-SN link and the broker connection. Oracles
// (per-property monitors) judge the trace; gwsim itself judges nothing.
package gwsim

import (
	"context"
	"errors"
	"fmt"
	"net"
	"regexp"
	"runtime"
	"strings"
	"sync"
	"testing/synctest"
	"time"

	"github.com/energomonitor/bisquitt/gateway"
	"github.com/energomonitor/bisquitt/topics"
	"github.com/energomonitor/bisquitt/util"

	"verif/harness/memnet"
	"verif/harness/mqttref"
	"verif/harness/snref"
)

type Config struct {
	Auth         bool                         `json:"auth,omitempty"`
	GwUser       *string                      `json:"gwuser,omitempty"`
	GwPass       []byte                       `json:"gwpass,omitempty"`
	RetryDelayMs int                          `json:"retry_ms"`
	RetryCount   uint                         `json:"retries"`
	Predef       map[string]map[uint16]string `json:"predef,omitempty"`
	SkipIDs      int                          `json:"skip_ids,omitempty"`
	MaxTopicID   uint16                       `json:"max_topic_id,omitempty"` // 0 = the real range 1..0xFFFE
}

// Auto describes how the scripted peers react on their own. They know only the
// protocols, nothing about the implementation.
type Auto struct {
	// Connack: the broker answers every MQTT CONNECT with this return code; nil = silent.
	Connack *byte `json:"connack,omitempty"`
	// Suback: "grant" answers SUBSCRIBE granting the requested QoS, "0".."2" grants
	// that QoS, "fail" answers 0x80, "" stays silent.
	Suback string `json:"suback,omitempty"`
	// BrokerAcks: the broker acknowledges client-originated PUBLISH (PUBACK /
	// PUBREC, then PUBCOMP on PUBREL), UNSUBSCRIBE (UNSUBACK) and PINGREQ (PINGRESP).
	BrokerAcks bool `json:"broker_acks,omitempty"`
	// BrokerPubrel: the broker answers the client's PUBREC (for a broker QoS 2 publish) with PUBREL.
	BrokerPubrel bool `json:"broker_pubrel,omitempty"`
	// ClientRegack: the client answers the gateway's REGISTER with REGACK(accepted).
	ClientRegack bool `json:"client_regack,omitempty"`
	// StrictRegister: the client keeps its name -> topic ID table a function, as bisquitt's own client
	// does: a gateway REGISTER for a name it already holds under another ID is answered with
	// REGACK(invalid topic ID) instead of being accepted.
	StrictRegister bool `json:"strict_register,omitempty"`
	// RegackRC: the return code of that REGACK (0 = accepted; 1..3 = the client refuses the registration).
	RegackRC byte `json:"regack_rc,omitempty"`
	// ClientAcks: the client acknowledges broker publishes (PUBACK / PUBREC, PUBCOMP on PUBREL).
	ClientAcks bool `json:"client_acks,omitempty"`
	// WillReplies: the client answers WILLTOPICREQ / WILLMSGREQ with these.
	WillTopic *snref.Pkt `json:"will_topic,omitempty"`
	WillMsg   *snref.Pkt `json:"will_msg,omitempty"`
	// CloseOnDisconnect: the broker closes the connection when it gets an MQTT DISCONNECT, as
	// MQTT 3.1.1 tells a server to do [MQTT-3.14.4-1].
	CloseOnDisconnect bool `json:"close_on_disconnect,omitempty"`
}

type Step struct {
	// K: "sn" client sends SN; "snraw" client sends Raw; "mq" broker sends MQ;
	// "mqraw" broker sends Raw; "adv" virtual time advances D ms; "cancel"
	// gateway shutdown (context cancel); "mqclose" broker closes the connection;
	// "snrepeat" the client sends the D-th most recent of its datagrams again;
	// "snclose" the client's transport is closed (the gateway's reads see EOF);
	// "snfail" from now on the gateway's writes to the client fail (unreachable);
	// "mqstall"/"mqunstall" the broker stops/resumes reading (writes to it block);
	// "mq-at-snwrite"/"sn-at-mqwrite" the other peer's packet arrives inside the gateway's next write;
	// "eager"/"eagerping" the peers react from the write hooks; "auto" replaces the reactive behaviour.
	K      string       `json:"k"`
	SN     *snref.Pkt   `json:"sn,omitempty"`
	MQ     *mqttref.Pkt `json:"mq,omitempty"`
	Raw    []byte       `json:"raw,omitempty"`
	D      int64        `json:"d,omitempty"`
	Auto   *Auto        `json:"auto,omitempty"`
	NoWait bool         `json:"nowait,omitempty"` // do not let the session settle before the next step
}

type Script struct {
	Cfg   Config `json:"cfg"`
	Auto  Auto   `json:"auto"`
	Steps []Step `json:"steps"`
	// TailMs: after the last step keep observing for this much virtual time.
	TailMs int64 `json:"tail_ms,omitempty"`
	// EnforceKeepAlive: the broker behaves like a conforming MQTT server with
	// respect to time: it closes a connection on which no CONNECT arrives within
	// ConnectWaitMs, and one that stays silent for 1.5 x the keep-alive of its
	// CONNECT [MQTT-3.1.2-24].
	EnforceKeepAlive bool  `json:"enforce_keepalive,omitempty"`
	ConnectWaitMs    int64 `json:"connect_wait_ms,omitempty"`
}

// Event directions.
const (
	CG = "C>G" // client datagram injected
	GC = "G>C" // gateway datagram to the client
	GB = "G>B" // gateway MQTT packet to the broker
	BG = "B>G" // broker bytes injected
	EV = "EV"  // harness event: ADV, CANCEL, MQCLOSE, END, MQEOF
)

type Event struct {
	T    int64        // virtual ms since the session started
	Ns   int64        // virtual ns since the session started
	Dir  string       //
	Step int          // index of the script step that (directly or by reaction) caused it; -1 = tail
	SN   *snref.Pkt   // decoded datagram (C>G, G>C) when it decodes
	MQ   *mqttref.Pkt // decoded MQTT packet (G>B, B>G) when it parses
	Raw  []byte       // the bytes
	Err  string       // decode error, if any
	What string       // for EV
	Auto bool         // sent by a reactive behaviour, not by a script step
}

func (e Event) String() string {
	switch {
	case e.Dir == EV:
		return fmt.Sprintf("%7dms %s %s", e.T, e.Dir, e.What)
	case e.SN != nil:
		return fmt.Sprintf("%7dms %s %v", e.T, e.Dir, *e.SN)
	case e.MQ != nil:
		return fmt.Sprintf("%7dms %s %v", e.T, e.Dir, *e.MQ)
	}
	return fmt.Sprintf("%7dms %s raw % x (%s)", e.T, e.Dir, head(e.Raw), e.Err)
}

func head(b []byte) []byte {
	if len(b) > 24 {
		return b[:24]
	}
	return b
}

type Trace struct {
	Events   []Event
	Ended    bool  // run returned
	EndNs    int64 // when
	MQClosed bool  // the gateway closed the broker connection
	MQCloseNs int64
	// Leaked lists goroutines with bisquitt frames found right after the session ended.
	Leaked []string
	// Hung: the session did not end even after everything was closed and the
	// context cancelled (the interpreter's watchdog fired).
	Hung bool
	// BrokerParseErr: the G>B stream stopped parsing as MQTT.
	BrokerParseErr string
}

func (t *Trace) Dump(max int) string {
	var sb strings.Builder
	ev := t.Events
	if len(ev) > max {
		fmt.Fprintf(&sb, "... %d earlier events\n", len(ev)-max)
		ev = ev[len(ev)-max:]
	}
	for _, e := range ev {
		sb.WriteString(e.String())
		sb.WriteByte('\n')
	}
	return sb.String()
}

// Session is a running gateway session with its links.
type Session struct {
	SN, MQ  *memnet.Link
	Cancel  context.CancelFunc
	Done    chan struct{}
	start   time.Time
	tr      *Trace
	parser  mqttref.Parser
	auto    Auto
	step    int
	Logger  util.Logger
	endSeen bool
	stopEnforce func()
	evMu        sync.Mutex
	// the reactive client's own bookkeeping (StrictRegister): names it holds an ID for, requests pending
	clNames   map[string]uint16
	clPendReg map[uint16]string
	clPendSub map[uint16]string
	// eager broker (see step "eagerping"): PINGREQs answered from the link's write hook
	eagerMu       sync.Mutex
	eagerAnswered int
	// collectMu guards the trace bookkeeping and the reactive peers' state: with eager peers (step
	// "eager") they also run on the gateway's writing goroutines
	collectMu  sync.Mutex
	eagerOn    bool
	prevMQHook func([]byte)
	prevSNHook func([]byte)
}

// clientLearn keeps the reactive client's name -> ID table (what it registered itself and got
// acknowledged, what SUBACKs told it, which gateway REGISTERs it accepted).
func (s *Session) clientLearn(e Event, accepted bool) {
	if e.SN == nil {
		return
	}
	if s.clNames == nil {
		s.clNames, s.clPendReg, s.clPendSub = map[string]uint16{}, map[uint16]string{}, map[uint16]string{}
	}
	p := e.SN
	switch {
	case e.Dir == CG && p.Type == snref.REGISTER:
		s.clPendReg[p.MsgID] = p.TopicName
	case e.Dir == CG && p.Type == snref.SUBSCRIBE && p.TIT == snref.TITNormal && !strings.ContainsAny(p.TopicName, "+#"):
		s.clPendSub[p.MsgID] = p.TopicName
	case e.Dir == GC && p.Type == snref.REGACK:
		if n, ok := s.clPendReg[p.MsgID]; ok {
			delete(s.clPendReg, p.MsgID)
			if p.RC == 0 {
				s.clNames[n] = p.TopicID
			}
		}
	case e.Dir == GC && p.Type == snref.SUBACK:
		if n, ok := s.clPendSub[p.MsgID]; ok {
			delete(s.clPendSub, p.MsgID)
			if p.RC == 0 && p.TopicID != 0 {
				s.clNames[n] = p.TopicID
			}
		}
	case e.Dir == GC && p.Type == snref.REGISTER && accepted:
		s.clNames[p.TopicName] = p.TopicID
	}
}

// Start launches a session (must be called inside a bubble).
func Start(cfg Config, shared *gateway.VerifShared, name string) *Session {
	s := &Session{SN: memnet.NewDatagram("sn-" + name), MQ: memnet.NewStream("mq-" + name),
		Done: make(chan struct{}), start: time.Now(), tr: &Trace{}}
	if shared == nil {
		shared = NewShared(cfg)
	}
	predef := topics.PredefinedTopics{}
	for c, m := range cfg.Predef {
		for id, n := range m {
			predef.Add(c, n, id)
		}
	}
	var lg util.Logger = util.NoOpLogger{}
	if s.Logger != nil {
		lg = s.Logger
	}
	ctx, cancel := context.WithCancel(context.Background())
	s.Cancel = cancel
	go func() {
		gateway.VerifRunSession(ctx, shared, predef, lg, s.SN.Conn(), s.MQ.Conn(), gateway.VerifSessionOpts{SkipTopicIDs: cfg.SkipIDs, MaxTopicID: cfg.MaxTopicID})
		s.tr.EndNs = int64(time.Since(s.start))
		close(s.Done)
	}()
	return s
}

func NewShared(cfg Config) *gateway.VerifShared {
	return gateway.VerifNewShared(gateway.VerifSessionConfig{
		AuthEnabled: cfg.Auth, MqttUser: cfg.GwUser, MqttPassword: cfg.GwPass,
		RetryDelay: time.Duration(cfg.RetryDelayMs) * time.Millisecond, RetryCount: cfg.RetryCount,
	})
}

func (s *Session) now() (int64, int64) {
	d := time.Since(s.start)
	return int64(d / time.Millisecond), int64(d)
}

func (s *Session) ev(e Event) {
	s.evMu.Lock()
	defer s.evMu.Unlock()
	e.T, e.Ns = s.now()
	e.Step = s.step
	s.tr.Events = append(s.tr.Events, e)
}

// evAt appends an event and returns its index (other goroutines append too: the index is only
// known under the lock).
func (s *Session) evAt(e Event, at time.Time) int {
	s.evMu.Lock()
	defer s.evMu.Unlock()
	d := at.Sub(s.start)
	e.T, e.Ns = int64(d/time.Millisecond), int64(d)
	e.Step = s.step
	s.tr.Events = append(s.tr.Events, e)
	return len(s.tr.Events) - 1
}

// ClientSend injects a datagram from the client.
func (s *Session) ClientSend(p snref.Pkt, auto bool) {
	b := snref.Encode(p)
	pp := p
	s.ev(Event{Dir: CG, SN: &pp, Raw: b, Auto: auto})
	s.clientLearn(Event{Dir: CG, SN: &pp}, false)
	s.SN.Send(b)
}

func (s *Session) ClientSendRaw(b []byte) {
	e := Event{Dir: CG, Raw: b}
	if p, _, err := snref.Decode(b, false); err == nil {
		e.SN = &p
	} else {
		e.Err = err.Error()
	}
	s.ev(e)
	s.SN.Send(b)
}

// BrokerSend injects an MQTT packet from the broker.
func (s *Session) BrokerSend(p mqttref.Pkt, auto bool) {
	b := mqttref.Encode(p)
	pp := p
	s.ev(Event{Dir: BG, MQ: &pp, Raw: b, Auto: auto})
	s.MQ.Send(b)
}

func (s *Session) BrokerSendRaw(b []byte) {
	s.ev(Event{Dir: BG, Raw: b})
	s.MQ.Send(b)
}

// collect moves what the gateway wrote since the last call into the trace and
// returns the new events' indices.
func (s *Session) collect() (newEv []int) {
	s.collectMu.Lock()
	newEv = s.collectTraffic()
	s.collectMu.Unlock()
	s.detectEnd()
	return
}

// collectTraffic: the traffic part of collect (collectMu held).
func (s *Session) collectTraffic() (newEv []int) {
	type item struct {
		at time.Time
		e  Event
	}
	var items []item
	for _, r := range s.SN.Take() {
		e := Event{Dir: GC, Raw: r.Data}
		if p, _, err := snref.Decode(r.Data, false); err == nil {
			e.SN = &p
		} else {
			e.Err = err.Error()
		}
		items = append(items, item{r.T, e})
	}
	for _, r := range s.MQ.Take() {
		if s.parser.Err != nil {
			items = append(items, item{r.T, Event{Dir: GB, Raw: r.Data, Err: s.parser.Err.Error()}})
			continue
		}
		pk := s.parser.Feed(r.Data)
		for i := range pk {
			items = append(items, item{r.T, Event{Dir: GB, MQ: &pk[i], Raw: mqttref.EncodeFlags(pk[i], pk[i].Flags)}})
		}
		if s.parser.Err != nil {
			s.tr.BrokerParseErr = s.parser.Err.Error()
			items = append(items, item{r.T, Event{Dir: GB, Raw: r.Data, Err: s.parser.Err.Error()}})
		}
	}
	// stable merge by time (each link's records are already ordered)
	for i := 1; i < len(items); i++ {
		for j := i; j > 0 && items[j].at.Before(items[j-1].at); j-- {
			items[j], items[j-1] = items[j-1], items[j]
		}
	}
	for _, it := range items {
		newEv = append(newEv, s.evAt(it.e, it.at))
	}
	if c, at := s.MQ.SUTClosed(); c && !s.tr.MQClosed {
		s.tr.MQClosed, s.tr.MQCloseNs = true, int64(at.Sub(s.start))
		s.evAt(Event{Dir: EV, What: "MQEOF"}, at)
	}
	return
}

// detectEnd notes the end of the session (outside collectMu: it waits for quiescence).
func (s *Session) detectEnd() {
	select {
	case <-s.Done:
		if !s.endSeen {
			s.endSeen = true
			s.tr.Ended = true
			s.evAt(Event{Dir: EV, What: "END"}, s.start.Add(time.Duration(s.tr.EndNs)))
			synctest.Wait()
			s.tr.Leaked = Census()
		}
	default:
	}
}

// Reactions computes what the scripted peers (which know only the protocols)
// answer to one packet the gateway sent: datagrams from the client and MQTT
// packets from the broker.
func Reactions(a Auto, e Event) (sn []snref.Pkt, mq []mqttref.Pkt) {
	if e.Dir == GB && e.MQ != nil {
		m := e.MQ
		switch m.Type {
		case mqttref.CONNECT:
			if a.Connack != nil {
				mq = append(mq, mqttref.Pkt{Type: mqttref.CONNACK, RC: *a.Connack})
			}
		case mqttref.SUBSCRIBE:
			if a.Suback != "" {
				codes := make([]byte, len(m.QoSs))
				for j, q := range m.QoSs {
					switch a.Suback {
					case "grant":
						codes[j] = q & 3
						if codes[j] == 3 {
							codes[j] = 0x80
						}
					case "fail":
						codes[j] = 0x80
					default:
						codes[j] = a.Suback[0] - '0'
					}
				}
				mq = append(mq, mqttref.Pkt{Type: mqttref.SUBACK, MsgID: m.MsgID, Codes: codes})
			}
		case mqttref.PUBLISH:
			if a.BrokerAcks && m.QoS == 1 {
				mq = append(mq, mqttref.Pkt{Type: mqttref.PUBACK, MsgID: m.MsgID})
			} else if a.BrokerAcks && m.QoS == 2 {
				mq = append(mq, mqttref.Pkt{Type: mqttref.PUBREC, MsgID: m.MsgID})
			}
		case mqttref.PUBREL:
			if a.BrokerAcks {
				mq = append(mq, mqttref.Pkt{Type: mqttref.PUBCOMP, MsgID: m.MsgID})
			}
		case mqttref.PUBREC:
			if a.BrokerPubrel {
				mq = append(mq, mqttref.Pkt{Type: mqttref.PUBREL, MsgID: m.MsgID})
			}
		case mqttref.UNSUBSCRIBE:
			if a.BrokerAcks {
				mq = append(mq, mqttref.Pkt{Type: mqttref.UNSUBACK, MsgID: m.MsgID})
			}
		case mqttref.PINGREQ:
			if a.BrokerAcks {
				mq = append(mq, mqttref.Pkt{Type: mqttref.PINGRESP})
			}
		}
	}
	if e.Dir == GC && e.SN != nil {
		p := e.SN
		switch p.Type {
		case snref.REGISTER:
			if a.ClientRegack {
				sn = append(sn, snref.Pkt{Type: snref.REGACK, TopicID: p.TopicID, MsgID: p.MsgID, RC: a.RegackRC})
			}
		case snref.PUBLISH:
			if a.ClientAcks && p.QoS == 1 {
				sn = append(sn, snref.Pkt{Type: snref.PUBACK, TopicID: p.TopicID, MsgID: p.MsgID, RC: 0})
			} else if a.ClientAcks && p.QoS == 2 {
				sn = append(sn, snref.Pkt{Type: snref.PUBREC, MsgID: p.MsgID})
			}
		case snref.PUBREL:
			if a.ClientAcks {
				sn = append(sn, snref.Pkt{Type: snref.PUBCOMP, MsgID: p.MsgID})
			}
		case snref.WILLTOPICREQ:
			if a.WillTopic != nil {
				sn = append(sn, *a.WillTopic)
			}
		case snref.WILLMSGREQ:
			if a.WillMsg != nil {
				sn = append(sn, *a.WillMsg)
			}
		}
	}
	return
}

// react lets the scripted peers answer; reports whether anything was sent.
func (s *Session) react(idx []int) bool {
	sent := false
	for _, i := range idx {
		s.evMu.Lock()
		e := s.tr.Events[i]
		s.evMu.Unlock()
		sn, mq := Reactions(s.auto, e)
		if e.Dir == GB && e.MQ != nil && e.MQ.Type == mqttref.PINGREQ {
			s.eagerMu.Lock()
			if s.eagerAnswered > 0 {
				s.eagerAnswered--
				mq = nil // the eager broker has answered this one already
			}
			s.eagerMu.Unlock()
		}
		if e.Dir == GC && e.SN != nil && e.SN.Type == snref.REGISTER {
			for k := range sn {
				if sn[k].Type != snref.REGACK {
					continue
				}
				if id, ok := s.clNames[e.SN.TopicName]; s.auto.StrictRegister && ok && id != e.SN.TopicID {
					sn[k].RC = 2 // invalid topic ID: the name is known under another ID
				}
				s.clientLearn(e, sn[k].RC == 0)
			}
		} else {
			s.clientLearn(e, false)
		}
		for _, p := range mq {
			s.BrokerSend(p, true)
			sent = true
		}
		if s.auto.CloseOnDisconnect && e.Dir == GB && e.MQ != nil && e.MQ.Type == mqttref.DISCONNECT {
			s.ev(Event{Dir: EV, What: "MQCLOSE (the broker got DISCONNECT)"})
			s.MQ.Close()
			sent = true
		}
		for _, p := range sn {
			s.ClientSend(p, true)
			sent = true
		}
	}
	return sent
}

// Settle waits until the bubble is quiescent, collecting traffic and letting
// the reactive peers answer, until nothing more happens at this instant.
func (s *Session) Settle() {
	for i := 0; i < 200; i++ {
		synctest.Wait()
		s.collectMu.Lock()
		idx := s.collectTraffic()
		sent := s.react(idx)
		s.collectMu.Unlock()
		s.detectEnd()
		if !sent {
			return
		}
	}
}

// Advance lets virtual time pass, settling at every instant at which the
// gateway produced something (so that reactive peers answer promptly).
func (s *Session) Advance(d time.Duration) {
	end := time.Now().Add(d)
	for {
		left := time.Until(end)
		if left <= 0 {
			break
		}
		step := left
		if step > 50*time.Millisecond {
			step = 50 * time.Millisecond
		}
		time.Sleep(step)
		s.Settle()
	}
	s.Settle()
}

// AdvanceCoarse lets virtual time pass in one sleep (cheap for long horizons;
// reactive peers answer only at the end).
func (s *Session) AdvanceCoarse(d time.Duration) {
	time.Sleep(d)
	s.Settle()
}

func (s *Session) Apply(i int, st Step) {
	s.step = i
	switch st.K {
	case "sn":
		s.ClientSend(*st.SN, false)
	case "snraw":
		s.ClientSendRaw(st.Raw)
	case "mq":
		s.BrokerSend(*st.MQ, false)
	case "mqraw":
		s.BrokerSendRaw(st.Raw)
	case "adv":
		s.ev(Event{Dir: EV, What: fmt.Sprintf("ADV %dms", st.D)})
		if st.D > 20000 {
			s.AdvanceCoarse(time.Duration(st.D) * time.Millisecond)
		} else {
			s.Advance(time.Duration(st.D) * time.Millisecond)
		}
		return
	case "cancel":
		s.ev(Event{Dir: EV, What: "CANCEL"})
		s.Cancel()
	case "mqclose":
		s.ev(Event{Dir: EV, What: "MQCLOSE"})
		s.MQ.Close()
	case "snrepeat": // the client repeats the D-th most recent datagram it sent (its own automatic replies included): UDP may duplicate
		n := int(st.D)
		s.evMu.Lock()
		var raw []byte
		for j := len(s.tr.Events) - 1; j >= 0; j-- {
			if s.tr.Events[j].Dir == CG {
				if n <= 1 {
					raw = s.tr.Events[j].Raw
					break
				}
				n--
			}
		}
		s.evMu.Unlock()
		if raw != nil {
			s.ClientSendRaw(raw)
		}
	case "mqack": // the broker answers the gateway's most recent request with an acknowledgement of variant D (also malformed ones)
		var last *mqttref.Pkt
		s.evMu.Lock()
		for j := len(s.tr.Events) - 1; j >= 0 && last == nil; j-- {
			if e := s.tr.Events[j]; e.Dir == GB && e.MQ != nil {
				switch e.MQ.Type {
				case mqttref.SUBSCRIBE, mqttref.UNSUBSCRIBE, mqttref.PUBLISH, mqttref.PUBREL, mqttref.PUBREC:
					last = e.MQ
				}
			}
		}
		s.evMu.Unlock()
		if last != nil {
			ack := mqttref.Pkt{MsgID: last.MsgID}
			switch last.Type {
			case mqttref.SUBSCRIBE:
				ack.Type = mqttref.SUBACK
				for k := int64(0); k < st.D%4; k++ { // 0, 1, 2 or 3 return codes
					ack.Codes = append(ack.Codes, byte([]int{0, 1, 0x80, 2}[(st.D/4+k)%4]))
				}
			case mqttref.UNSUBSCRIBE:
				ack.Type = []byte{mqttref.UNSUBACK, mqttref.SUBACK, mqttref.PUBACK, mqttref.PUBCOMP}[st.D%4]
			case mqttref.PUBLISH:
				ack.Type = []byte{mqttref.PUBACK, mqttref.PUBREC, mqttref.PUBCOMP, mqttref.SUBACK}[st.D%4]
			case mqttref.PUBREL:
				ack.Type = []byte{mqttref.PUBCOMP, mqttref.PUBREC, mqttref.PUBACK, mqttref.PUBREL}[st.D%4]
			default:
				ack.Type = []byte{mqttref.PUBREL, mqttref.PUBCOMP, mqttref.PUBACK, mqttref.PUBREL}[st.D%4]
			}
			s.BrokerSend(ack, false)
		}
	case "snclose": // the client's transport is closed by the peer (e.g. a DTLS close_notify): the gateway reads EOF
		s.ev(Event{Dir: EV, What: "SNCLOSE"})
		s.SN.Close()
	case "snfail": // the client's address has become unreachable: the gateway's writes to it fail
		s.ev(Event{Dir: EV, What: "SNFAIL"})
		s.SN.SetFailWrites(&net.OpError{Op: "write", Net: "udp", Err: errors.New("network is unreachable")})
	case "mqstall": // the broker stops reading: the gateway's writes to it block
		// D > 0: it still takes D more bytes (the rest of its socket buffer)
		s.ev(Event{Dir: EV, What: fmt.Sprintf("MQSTALL room=%d", st.D)})
		s.MQ.SetStalledAfter(true, int(st.D))
	case "mq-at-snwrite", "sn-at-mqwrite":
		// One shot: the next time the gateway writes to the client (mq-at-snwrite) / to the broker
		// (sn-at-mqwrite), the other peer's packet st.MQ / st.SN arrives while the writing goroutine
		// is still inside that write (it then yields D times): the gateway's two loops meet there.
		link := s.SN
		if st.K == "sn-at-mqwrite" {
			link = s.MQ
		}
		prev := link.OnWrite
		var once sync.Once
		yield := int(st.D)
		mq, sn := st.MQ, st.SN
		link.OnWrite = func(b []byte) {
			if prev != nil {
				prev(b)
			}
			once.Do(func() {
				if mq != nil {
					s.BrokerSend(*mq, false)
				}
				if sn != nil {
					s.ClientSend(*sn, false)
				}
				for i := 0; i < yield; i++ {
					runtime.Gosched()
				}
			})
		}
		return
	case "eager":
		// From now on both scripted peers react to what the gateway writes the moment it is written -
		// from the links' write hooks, while the writing goroutine is still inside the write (it then
		// yields D times) - instead of when the gateway has come to rest: a broker on the same host, a
		// client on a fast link. D < 0: off.
		if st.D < 0 {
			if s.eagerOn {
				s.MQ.OnWrite, s.SN.OnWrite, s.eagerOn = s.prevMQHook, s.prevSNHook, false
			}
			return
		}
		yield := int(st.D)
		s.ev(Event{Dir: EV, What: fmt.Sprintf("EAGER yield=%d", yield)})
		if !s.eagerOn {
			// (the enforcing broker model listens on the same hook: it goes first)
			s.prevMQHook, s.prevSNHook, s.eagerOn = s.MQ.OnWrite, s.SN.OnWrite, true
		}
		hook := func(prev func([]byte)) func([]byte) {
			return func(b []byte) {
				if prev != nil {
					prev(b)
				}
				s.collectMu.Lock()
				idx := s.collectTraffic()
				s.react(idx)
				s.collectMu.Unlock()
				for i := 0; i < yield; i++ {
					runtime.Gosched()
				}
			}
		}
		s.MQ.OnWrite, s.SN.OnWrite = hook(s.prevMQHook), hook(s.prevSNHook)
		return
	case "eagerping":
		// From now on the broker answers a PINGREQ the moment the gateway writes it - from the link's
		// write hook, while the writing goroutine is still inside the write (it then yields D times:
		// a write is a system call) - instead of when the gateway has come to rest. D < 0: off.
		if st.D < 0 {
			if s.eagerOn {
				s.MQ.OnWrite, s.eagerOn = s.prevMQHook, false
			}
			return
		}
		yield := int(st.D)
		s.ev(Event{Dir: EV, What: fmt.Sprintf("EAGERPING yield=%d", yield)})
		if !s.eagerOn {
			s.prevMQHook, s.prevSNHook, s.eagerOn = s.MQ.OnWrite, s.SN.OnWrite, true
		}
		prev := s.prevMQHook
		s.MQ.OnWrite = func(b []byte) {
			if prev != nil {
				prev(b)
			}
			if len(b) == 2 && b[0] == 0xc0 && b[1] == 0 {
				s.eagerMu.Lock()
				s.eagerAnswered++
				s.eagerMu.Unlock()
				s.BrokerSend(mqttref.Pkt{Type: mqttref.PINGRESP}, true)
				for i := 0; i < yield; i++ {
					runtime.Gosched()
				}
			}
		}
		return
	case "mqunstall":
		s.ev(Event{Dir: EV, What: "MQUNSTALL"})
		s.MQ.SetStalled(false)
	case "auto":
		s.auto = *st.Auto
		return
	}
	if !st.NoWait {
		s.Settle()
	}
}

// Finish tears the session down and returns the trace. If the session has not
// ended by itself it is shut down (context cancel, then closing the links).
func (s *Session) Finish() *Trace {
	s.step = -1
	s.Settle()
	if !s.tr.Ended {
		s.ev(Event{Dir: EV, What: "TEARDOWN"})
		s.Cancel()
		wd := time.NewTimer(10 * time.Minute)
		select {
		case <-s.Done:
			wd.Stop()
		case <-wd.C:
			s.SN.Close()
			s.MQ.Close()
			wd2 := time.NewTimer(10 * time.Minute)
			select {
			case <-s.Done:
				wd2.Stop()
			case <-wd2.C:
				s.tr.Hung = true
			}
		}
		// traffic after the teardown is recorded but the END/leak census of a
		// forced teardown is not evidence of anything
		s.endSeen = true
		s.collectQuiet()
	} else {
		s.Cancel()
	}
	return s.tr
}

func (s *Session) collectQuiet() {
	synctest.Wait()
	s.collect()
}

// enforce starts the time-enforcing part of the broker: a watchdog that closes
// the connection when the gateway has been silent for too long.
func (s *Session) enforce(connectWait time.Duration) {
	var (
		mu        sync.Mutex
		last      = time.Now()
		keepAlive time.Duration // 0 until a CONNECT was seen
		sawConn   bool
		ps        mqttref.Parser
	)
	stop := make(chan struct{})
	kick := make(chan struct{}, 1)
	s.stopEnforce = func() { close(stop) }
	s.MQ.OnWrite = func(b []byte) {
		defer func() {
			select {
			case kick <- struct{}{}:
			default:
			}
		}()
		mu.Lock()
		defer mu.Unlock()
		last = time.Now()
		for _, p := range ps.Feed(b) {
			if p.Type == mqttref.CONNECT {
				sawConn = true
				keepAlive = time.Duration(p.KeepAlive) * time.Second
			}
		}
	}
	go func() {
		for {
			mu.Lock()
			var deadline time.Time
			switch {
			case !sawConn:
				deadline = s.start.Add(connectWait)
			case keepAlive > 0:
				deadline = last.Add(keepAlive * 3 / 2)
			}
			mu.Unlock()
			var wait <-chan time.Time
			if !deadline.IsZero() {
				d := time.Until(deadline)
				if d <= 0 {
					s.evAt(Event{Dir: EV, What: "BROKER-DROPS (keep-alive enforcement)"}, time.Now())
					s.MQ.Close()
					return
				}
				wait = time.After(d)
			} else {
				wait = time.After(time.Hour)
			}
			select {
			case <-wait:
			case <-kick:
			case <-stop:
				return
			case <-s.Done:
				return
			}
		}
	}()
}

// Run interprets a whole script (inside a bubble).
func Run(sc Script) *Trace {
	s := Start(sc.Cfg, nil, "s")
	s.auto = sc.Auto
	if sc.EnforceKeepAlive {
		cw := time.Duration(sc.ConnectWaitMs) * time.Millisecond
		if cw == 0 {
			cw = 5 * time.Second
		}
		s.enforce(cw)
		defer s.stopEnforce()
	}
	s.Settle()
	for i, st := range sc.Steps {
		s.Apply(i, st)
	}
	if sc.TailMs > 0 {
		s.step = -1
		s.Advance(time.Duration(sc.TailMs) * time.Millisecond)
	}
	return s.Finish()
}

var goroutineHdr = regexp.MustCompile(`^goroutine \d+ `)
var bubbleTag = regexp.MustCompile(`synctest bubble \d+`)

// Census returns one line per live goroutine that has a frame of the code
// under test on its stack (harness frames excluded).
func Census() []string {
	// only goroutines of the caller's own bubble count (goroutines leaked by an
	// earlier case stay blocked in their own, dead bubble)
	self := make([]byte, 256)
	self = self[:runtime.Stack(self, false)]
	bubble := ""
	if m := bubbleTag.FindString(string(self)); m != "" {
		bubble = m
	}
	buf := make([]byte, 1<<20)
	n := runtime.Stack(buf, true)
	var out []string
	for _, g := range strings.Split(string(buf[:n]), "\n\n") {
		if !strings.Contains(g, "github.com/energomonitor/bisquitt/") {
			continue
		}
		if hdr := strings.SplitN(g, "\n", 2)[0]; bubbleTag.FindString(hdr) != bubble {
			continue
		}
		lines := strings.Split(g, "\n")
		var frames []string
		for _, l := range lines {
			if strings.HasPrefix(l, "github.com/energomonitor/bisquitt/") {
				f := l
				if i := strings.LastIndex(f, "("); i > 0 {
					f = f[:i]
				}
				frames = append(frames, strings.TrimPrefix(f, "github.com/energomonitor/bisquitt/"))
			}
		}
		if len(frames) > 3 {
			frames = frames[:3]
		}
		hdr := ""
		if len(lines) > 0 && goroutineHdr.MatchString(lines[0]) {
			hdr = lines[0]
			if i := strings.Index(hdr, "["); i > 0 {
				hdr = hdr[i:]
			}
		}
		out = append(out, hdr+" "+strings.Join(frames, " <- "))
	}
	return out
}

// Trace gives access to the trace collected so far.
func (s *Session) Trace() *Trace { return s.tr }

// SetAuto replaces the reactive behaviour of the scripted peers.
func (s *Session) SetAuto(a Auto) { s.auto = a }
