// Package memnet provides in-memory net.Conn links whose blocking operations
// are durable blocks for testing/synctest (channel waits and timers only), so
// that code using read deadlines and polling runs on the bubble's virtual
// clock. One end of a Link is a net.Conn handed to the system under test; the
// other end is driven by the harness (Send / Take / Close), and everything the
// system writes is recorded with its (virtual) timestamp.
package memnet

import (
	"io"
	"net"
	"sync"
	"time"
)

type Record struct {
	T    time.Time
	Data []byte
}

type timeoutError struct{}

func (timeoutError) Error() string   { return "memnet: i/o timeout" }
func (timeoutError) Timeout() bool   { return true }
func (timeoutError) Temporary() bool { return true }

var ErrTimeout net.Error = timeoutError{}

type Addr string

func (a Addr) Network() string { return "memnet" }
func (a Addr) String() string  { return string(a) }

type Link struct {
	mu            sync.Mutex
	datagram      bool
	toSUT         [][]byte
	fromSUT       []Record
	taken         int
	harnessClosed bool
	sutClosed     bool
	sutClosedAt   time.Time
	notify        chan struct{}
	rdl           time.Time
	wdl           time.Time
	stalled       bool
	room          int // bytes a stalled stream peer still takes (what is left of its socket buffer)
	wlock         chan struct{}
	wnotify       chan struct{}
	name          string
	// OnWrite, when set, is called synchronously (outside the link's lock) with
	// a copy of everything the system under test writes.
	OnWrite func(b []byte)
	// FailWrites makes the system's writes fail with this error.
	FailWrites error
}

// NewDatagram makes a link that preserves message boundaries (UDP-like: the
// sender never blocks, a read returns one whole datagram).
func NewDatagram(name string) *Link {
	return &Link{datagram: true, notify: make(chan struct{}, 1), wnotify: make(chan struct{}, 1), wlock: make(chan struct{}, 1), name: name}
}

// NewStream makes a byte-stream link with an unbounded buffer (TCP-like).
func NewStream(name string) *Link {
	return &Link{notify: make(chan struct{}, 1), wnotify: make(chan struct{}, 1), wlock: make(chan struct{}, 1), name: name}
}

func (l *Link) wake() {
	select {
	case l.notify <- struct{}{}:
	default:
	}
}

// Send queues data for the system under test to read.
func (l *Link) Send(b []byte) {
	l.mu.Lock()
	l.toSUT = append(l.toSUT, append([]byte(nil), b...))
	l.mu.Unlock()
	l.wake()
}

// Close closes the harness end: the system's reads see EOF once the queue is drained.
func (l *Link) Close() {
	l.mu.Lock()
	l.harnessClosed = true
	l.mu.Unlock()
	l.wake()
}

// SetFailWrites makes every later write of the system fail with err (nil: writes work again), as
// writes to a peer that has become unreachable do.
func (l *Link) SetFailWrites(err error) {
	l.mu.Lock()
	l.FailWrites = err
	l.mu.Unlock()
}

// SetStalled makes the peer stop reading (a full socket buffer): while stalled, the
// system's writes block until their write deadline and then fail with a timeout, as
// writes to a TCP connection whose receiver has stopped reading do.
func (l *Link) SetStalled(on bool) { l.SetStalledAfter(on, 0) }

// SetStalledAfter: like SetStalled, but a stalling stream peer still takes room more bytes (the
// rest of its socket buffer): a write larger than that is accepted in part, blocks, and fails
// with a timeout at its deadline having written that part - as a TCP write does.
func (l *Link) SetStalledAfter(on bool, room int) {
	l.mu.Lock()
	l.stalled = on
	l.room = 0
	if on && !l.datagram {
		l.room = room
	}
	l.mu.Unlock()
	select {
	case l.wnotify <- struct{}{}:
	default:
	}
}

// Take returns what the system wrote since the previous Take.
func (l *Link) Take() []Record {
	l.mu.Lock()
	defer l.mu.Unlock()
	r := l.fromSUT[l.taken:]
	l.taken = len(l.fromSUT)
	return r
}

// All returns everything the system wrote so far.
func (l *Link) All() []Record {
	l.mu.Lock()
	defer l.mu.Unlock()
	return append([]Record(nil), l.fromSUT...)
}

// SUTClosed reports whether (and when) the system closed its end.
func (l *Link) SUTClosed() (bool, time.Time) {
	l.mu.Lock()
	defer l.mu.Unlock()
	return l.sutClosed, l.sutClosedAt
}

// Pending reports how many queued items the system has not read yet.
func (l *Link) Pending() int {
	l.mu.Lock()
	defer l.mu.Unlock()
	return len(l.toSUT)
}

// Conn returns the net.Conn for the system under test.
func (l *Link) Conn() net.Conn { return &conn{l} }

type conn struct{ l *Link }

func (c *conn) Read(p []byte) (int, error) {
	l := c.l
	for {
		l.mu.Lock()
		if l.sutClosed {
			l.mu.Unlock()
			return 0, net.ErrClosed
		}
		if len(l.toSUT) > 0 {
			m := l.toSUT[0]
			n := copy(p, m)
			if l.datagram || n == len(m) {
				l.toSUT = l.toSUT[1:]
			} else {
				l.toSUT[0] = m[n:]
			}
			l.mu.Unlock()
			return n, nil
		}
		if l.harnessClosed {
			l.mu.Unlock()
			return 0, io.EOF
		}
		dl := l.rdl
		l.mu.Unlock()
		if dl.IsZero() {
			<-l.notify
			continue
		}
		d := time.Until(dl)
		if d <= 0 {
			return 0, ErrTimeout
		}
		tm := time.NewTimer(d)
		select {
		case <-l.notify:
			tm.Stop()
		case <-tm.C:
			return 0, ErrTimeout
		}
	}
}

func (c *conn) Write(b []byte) (int, error) {
	l := c.l
	// one Write call at a time, as on a socket (the descriptor's write lock): a second writer waits
	// until the first call has returned - also when it returns early with a timeout
	// (a channel, not a sync.Mutex: a goroutine waiting for a mutex would keep a synctest bubble's
	// clock from advancing)
	l.wlock <- struct{}{}
	defer func() { <-l.wlock }()
	cp := append([]byte(nil), b...)
	written := 0
	for {
		l.mu.Lock()
		if !l.stalled || l.sutClosed || l.FailWrites != nil {
			break // (lock held)
		}
		if l.room > 0 && written < len(cp) {
			k := min(l.room, len(cp)-written)
			part := cp[written : written+k]
			l.fromSUT = append(l.fromSUT, Record{T: time.Now(), Data: part})
			l.room -= k
			written += k
			cb := l.OnWrite
			l.mu.Unlock()
			if cb != nil {
				cb(part)
			}
			if written == len(cp) {
				return written, nil
			}
			continue
		}
		dl := l.wdl
		l.mu.Unlock()
		if dl.IsZero() {
			<-l.wnotify
			continue
		}
		d := time.Until(dl)
		if d <= 0 {
			return written, ErrTimeout
		}
		tm := time.NewTimer(d)
		select {
		case <-l.wnotify:
			tm.Stop()
		case <-tm.C:
			return written, ErrTimeout
		}
	}
	if l.sutClosed {
		l.mu.Unlock()
		return written, net.ErrClosed
	}
	if l.FailWrites != nil {
		err := l.FailWrites
		l.mu.Unlock()
		return written, err
	}
	rest := cp[written:]
	l.fromSUT = append(l.fromSUT, Record{T: time.Now(), Data: rest})
	cb := l.OnWrite
	l.mu.Unlock()
	if cb != nil {
		cb(rest)
	}
	return len(b), nil
}

func (c *conn) Close() error {
	l := c.l
	l.mu.Lock()
	if !l.sutClosed {
		l.sutClosed = true
		l.sutClosedAt = time.Now()
	}
	l.mu.Unlock()
	l.wake()
	select {
	case l.wnotify <- struct{}{}:
	default:
	}
	return nil
}

func (c *conn) LocalAddr() net.Addr  { return Addr(c.l.name + ":sut") }
func (c *conn) RemoteAddr() net.Addr { return Addr(c.l.name + ":peer") }
func (c *conn) SetDeadline(t time.Time) error {
	c.l.mu.Lock()
	c.l.rdl = t
	c.l.wdl = t
	c.l.mu.Unlock()
	return nil
}
func (c *conn) SetReadDeadline(t time.Time) error {
	c.l.mu.Lock()
	c.l.rdl = t
	c.l.mu.Unlock()
	return nil
}
func (c *conn) SetWriteDeadline(t time.Time) error {
	c.l.mu.Lock()
	c.l.wdl = t
	c.l.mu.Unlock()
	return nil
}
