// Package mqttref is an independent byte-level MQTT 3.1.1 parser, encoder and
// validator written from the OASIS specification (every validation rule cites
// its normative clause). It is the oracle for what the gateway writes to the
// broker and the wire language of the scripted broker.
package mqttref

import (
	"encoding/binary"
	"errors"
	"fmt"
	"strings"
	"unicode/utf8"
)

const (
	CONNECT     = 1
	CONNACK     = 2
	PUBLISH     = 3
	PUBACK      = 4
	PUBREC      = 5
	PUBREL      = 6
	PUBCOMP     = 7
	SUBSCRIBE   = 8
	SUBACK      = 9
	UNSUBSCRIBE = 10
	UNSUBACK    = 11
	PINGREQ     = 12
	PINGRESP    = 13
	DISCONNECT  = 14
)

var names = []string{"RESERVED0", "CONNECT", "CONNACK", "PUBLISH", "PUBACK", "PUBREC", "PUBREL", "PUBCOMP",
	"SUBSCRIBE", "SUBACK", "UNSUBSCRIBE", "UNSUBACK", "PINGREQ", "PINGRESP", "DISCONNECT", "RESERVED15"}

func TypeName(t byte) string { return names[t&15] }

// Pkt is a type-agnostic MQTT control packet.
type Pkt struct {
	Type  byte `json:"type"`
	Flags byte `json:"flags"` // low nibble of the fixed header as seen / to send

	// CONNECT
	ProtoName    string `json:"proto,omitempty"`
	ProtoLevel   byte   `json:"level,omitempty"`
	ConnectFlags byte   `json:"cflags,omitempty"`
	KeepAlive    uint16 `json:"keepalive,omitempty"`
	ClientID     string `json:"clientid,omitempty"`
	WillTopic    string `json:"willtopic,omitempty"`
	WillMsg      []byte `json:"willmsg,omitempty"`
	User         string `json:"user,omitempty"`
	Password     []byte `json:"password,omitempty"`

	// CONNACK
	SessionPresent bool `json:"sp,omitempty"`
	RC             byte `json:"rc,omitempty"`

	// PUBLISH (Dup/QoS/Retain mirror Flags for PUBLISH)
	Dup     bool   `json:"dup,omitempty"`
	QoS     byte   `json:"qos,omitempty"`
	Retain  bool   `json:"retain,omitempty"`
	Topic   string `json:"topic,omitempty"`
	MsgID   uint16 `json:"mid,omitempty"`
	Payload []byte `json:"payload,omitempty"`

	// SUBSCRIBE / UNSUBSCRIBE / SUBACK
	Filters []string `json:"filters,omitempty"`
	QoSs    []byte   `json:"qoss,omitempty"`
	Codes   []byte   `json:"codes,omitempty"`

	Trailing int `json:"trailing,omitempty"` // octets of the packet the parser did not consume
}

func (p Pkt) HasUser() bool     { return p.ConnectFlags&0x80 != 0 }
func (p Pkt) HasPassword() bool { return p.ConnectFlags&0x40 != 0 }
func (p Pkt) WillRetain() bool  { return p.ConnectFlags&0x20 != 0 }
func (p Pkt) WillQoS() byte     { return (p.ConnectFlags >> 3) & 3 }
func (p Pkt) WillFlag() bool    { return p.ConnectFlags&0x04 != 0 }
func (p Pkt) CleanSession() bool { return p.ConnectFlags&0x02 != 0 }

func (p Pkt) String() string {
	switch p.Type {
	case PUBLISH:
		return fmt.Sprintf("PUBLISH(topic=%q qos=%d dup=%v retain=%v mid=%d len=%d)", p.Topic, p.QoS, p.Dup, p.Retain, p.MsgID, len(p.Payload))
	case CONNECT:
		return fmt.Sprintf("CONNECT(id=%q flags=%#02x keepalive=%d willtopic=%q user=%q)", p.ClientID, p.ConnectFlags, p.KeepAlive, p.WillTopic, p.User)
	case SUBSCRIBE, UNSUBSCRIBE:
		return fmt.Sprintf("%s(mid=%d filters=%q qoss=%v)", TypeName(p.Type), p.MsgID, p.Filters, p.QoSs)
	case SUBACK:
		return fmt.Sprintf("SUBACK(mid=%d codes=%v)", p.MsgID, p.Codes)
	case CONNACK:
		return fmt.Sprintf("CONNACK(rc=%d)", p.RC)
	case PUBACK, PUBREC, PUBREL, PUBCOMP, UNSUBACK:
		return fmt.Sprintf("%s(mid=%d)", TypeName(p.Type), p.MsgID)
	}
	return TypeName(p.Type)
}

// ---- encoding ---------------------------------------------------------------

func encLen(n int) []byte {
	var b []byte
	for {
		d := byte(n % 128)
		n /= 128
		if n > 0 {
			d |= 0x80
		}
		b = append(b, d)
		if n == 0 {
			return b
		}
	}
}

func str(s string) []byte { return append([]byte{byte(len(s) >> 8), byte(len(s))}, s...) }
func u16(v uint16) []byte { return []byte{byte(v >> 8), byte(v)} }

// StdFlags gives the fixed-header flags MQTT 3.1.1 requires for a type
// (PUBLISH flags are built from Dup/QoS/Retain).
func StdFlags(p Pkt) byte {
	switch p.Type {
	case PUBREL, SUBSCRIBE, UNSUBSCRIBE:
		return 2
	case PUBLISH:
		var f byte
		if p.Dup {
			f |= 8
		}
		f |= (p.QoS & 3) << 1
		if p.Retain {
			f |= 1
		}
		return f
	}
	return 0
}

// Body encodes variable header + payload.
func Body(p Pkt) []byte {
	var b []byte
	switch p.Type {
	case CONNECT:
		b = append(b, str(p.ProtoName)...)
		b = append(b, p.ProtoLevel, p.ConnectFlags)
		b = append(b, u16(p.KeepAlive)...)
		b = append(b, str(p.ClientID)...)
		if p.WillFlag() {
			b = append(b, str(p.WillTopic)...)
			b = append(b, str(string(p.WillMsg))...)
		}
		if p.HasUser() {
			b = append(b, str(p.User)...)
		}
		if p.HasPassword() {
			b = append(b, str(string(p.Password))...)
		}
	case CONNACK:
		sp := byte(0)
		if p.SessionPresent {
			sp = 1
		}
		b = []byte{sp, p.RC}
	case PUBLISH:
		b = append(b, str(p.Topic)...)
		if p.QoS > 0 {
			b = append(b, u16(p.MsgID)...)
		}
		b = append(b, p.Payload...)
	case PUBACK, PUBREC, PUBREL, PUBCOMP, UNSUBACK:
		b = u16(p.MsgID)
	case SUBSCRIBE:
		b = u16(p.MsgID)
		for i, f := range p.Filters {
			b = append(b, str(f)...)
			q := byte(0)
			if i < len(p.QoSs) {
				q = p.QoSs[i]
			}
			b = append(b, q)
		}
	case UNSUBSCRIBE:
		b = u16(p.MsgID)
		for _, f := range p.Filters {
			b = append(b, str(f)...)
		}
	case SUBACK:
		b = append(u16(p.MsgID), p.Codes...)
	}
	return b
}

// Encode produces the wire bytes with the standard fixed-header flags.
func Encode(p Pkt) []byte { return EncodeFlags(p, StdFlags(p)) }

// EncodeFlags produces the wire bytes with explicit fixed-header flags.
func EncodeFlags(p Pkt, flags byte) []byte {
	body := Body(p)
	b := []byte{p.Type<<4 | flags&15}
	b = append(b, encLen(len(body))...)
	return append(b, body...)
}

// ---- parsing ----------------------------------------------------------------

var ErrMalformed = errors.New("malformed MQTT packet")

type reader struct {
	b   []byte
	err error
}

func (r *reader) take(n int) []byte {
	if r.err != nil {
		return nil
	}
	if len(r.b) < n {
		r.err = fmt.Errorf("%w: field needs %d octets, %d left", ErrMalformed, n, len(r.b))
		return nil
	}
	v := r.b[:n]
	r.b = r.b[n:]
	return v
}
func (r *reader) u8() byte {
	v := r.take(1)
	if v == nil {
		return 0
	}
	return v[0]
}
func (r *reader) u16() uint16 {
	v := r.take(2)
	if v == nil {
		return 0
	}
	return binary.BigEndian.Uint16(v)
}
func (r *reader) str() string { return string(r.take(int(r.u16()))) }

// ParseOne parses the first packet of a byte stream. ok=false with err=nil
// means the stream holds only an incomplete packet so far.
func ParseOne(s []byte) (p Pkt, n int, ok bool, err error) {
	if len(s) < 2 {
		return p, 0, false, nil
	}
	rl, mult, i := 0, 1, 1
	for {
		if i >= len(s) {
			return p, 0, false, nil
		}
		d := s[i]
		rl += int(d&0x7f) * mult
		mult *= 128
		i++
		if d&0x80 == 0 {
			break
		}
		if i > 4 {
			return p, 0, false, fmt.Errorf("%w: remaining length longer than 4 octets [MQTT-2.2.3]", ErrMalformed)
		}
	}
	if len(s) < i+rl {
		return p, 0, false, nil
	}
	p.Type, p.Flags = s[0]>>4, s[0]&15
	r := &reader{b: s[i : i+rl]}
	switch p.Type {
	case CONNECT:
		p.ProtoName = r.str()
		p.ProtoLevel = r.u8()
		p.ConnectFlags = r.u8()
		p.KeepAlive = r.u16()
		p.ClientID = r.str()
		if p.WillFlag() {
			p.WillTopic = r.str()
			p.WillMsg = []byte(r.str())
		}
		if p.HasUser() {
			p.User = r.str()
		}
		if p.HasPassword() {
			p.Password = []byte(r.str())
		}
	case CONNACK:
		p.SessionPresent = r.u8()&1 != 0
		p.RC = r.u8()
	case PUBLISH:
		p.Dup, p.QoS, p.Retain = p.Flags&8 != 0, (p.Flags>>1)&3, p.Flags&1 != 0
		p.Topic = r.str()
		if p.QoS > 0 {
			p.MsgID = r.u16()
		}
		p.Payload = r.take(len(r.b))
	case PUBACK, PUBREC, PUBREL, PUBCOMP, UNSUBACK:
		p.MsgID = r.u16()
	case SUBSCRIBE:
		p.MsgID = r.u16()
		for r.err == nil && len(r.b) > 0 {
			p.Filters = append(p.Filters, r.str())
			p.QoSs = append(p.QoSs, r.u8())
		}
	case UNSUBSCRIBE:
		p.MsgID = r.u16()
		for r.err == nil && len(r.b) > 0 {
			p.Filters = append(p.Filters, r.str())
		}
	case SUBACK:
		p.MsgID = r.u16()
		p.Codes = r.take(len(r.b))
	case PINGREQ, PINGRESP, DISCONNECT:
	default:
		return p, i + rl, false, fmt.Errorf("%w: reserved packet type %d [MQTT-2.2.1]", ErrMalformed, p.Type)
	}
	if r.err != nil {
		return p, i + rl, false, r.err
	}
	p.Trailing = len(r.b)
	return p, i + rl, true, nil
}

// Parser accumulates a byte stream and yields complete packets.
type Parser struct {
	buf []byte
	Err error // first framing/field error; parsing stops there
}

func (ps *Parser) Feed(b []byte) []Pkt {
	ps.buf = append(ps.buf, b...)
	var out []Pkt
	for ps.Err == nil {
		p, n, ok, err := ParseOne(ps.buf)
		if err != nil {
			ps.Err = err
			break
		}
		if !ok {
			break
		}
		out = append(out, p)
		ps.buf = ps.buf[n:]
	}
	return out
}

// Rest returns the unparsed remainder.
func (ps *Parser) Rest() []byte { return ps.buf }

// ---- validation ---------------------------------------------------------------

// Issue is one violated normative statement.
type Issue struct {
	Clause string
	Msg    string
}

func validUTF8(s string) (bool, string) {
	if !utf8.ValidString(s) {
		return false, "ill-formed UTF-8 [MQTT-1.5.3-1]"
	}
	if strings.ContainsRune(s, 0) {
		return false, "contains U+0000 [MQTT-1.5.3-2]"
	}
	return true, ""
}

// ValidFilter checks topic-filter syntax (4.7.1).
func ValidFilter(f string) (bool, string) {
	if f == "" {
		return false, "empty topic filter [MQTT-4.7.3-1]"
	}
	levels := strings.Split(f, "/")
	for i, l := range levels {
		if strings.Contains(l, "#") && (l != "#" || i != len(levels)-1) {
			return false, "'#' must be the last level and occupy it entirely [MQTT-4.7.1-2]"
		}
		if strings.Contains(l, "+") && l != "+" {
			return false, "'+' must occupy an entire level [MQTT-4.7.1-3]"
		}
	}
	return true, ""
}

// ValidateFromClient checks a packet a client (here: the gateway) sent to a server.
func ValidateFromClient(p Pkt) []Issue {
	var is []Issue
	add := func(clause, f string, a ...any) { is = append(is, Issue{clause, fmt.Sprintf(f, a...)}) }
	if p.Type != PUBLISH && p.Flags != StdFlags(p) {
		add("MQTT-2.2.2-2", "%s fixed-header flags %#x, must be %#x", TypeName(p.Type), p.Flags, StdFlags(p))
	}
	if p.Trailing != 0 {
		add("MQTT-2.2.3", "%s has %d unexpected trailing octets", TypeName(p.Type), p.Trailing)
	}
	chk := func(what, s, clause string) {
		if ok, why := validUTF8(s); !ok {
			add(clause, "%s %q: %s", what, s, why)
		}
	}
	switch p.Type {
	case CONNECT:
		if p.ProtoName != "MQTT" {
			add("MQTT-3.1.2-1", "protocol name %q", p.ProtoName)
		}
		if p.ProtoLevel != 4 {
			add("MQTT-3.1.2-2", "protocol level %d", p.ProtoLevel)
		}
		if p.ConnectFlags&1 != 0 {
			add("MQTT-3.1.2-3", "reserved connect flag set")
		}
		if !p.WillFlag() {
			if p.WillQoS() != 0 {
				add("MQTT-3.1.2-13", "will flag 0 but will QoS %d", p.WillQoS())
			}
			if p.WillRetain() {
				add("MQTT-3.1.2-15", "will flag 0 but will retain 1")
			}
		} else {
			if p.WillQoS() == 3 {
				add("MQTT-3.1.2-14", "will QoS 3")
			}
			chk("will topic", p.WillTopic, "MQTT-3.1.3-10")
			if p.WillTopic == "" {
				add("MQTT-4.7.3-1", "will flag set with an empty will topic")
			}
			if strings.ContainsAny(p.WillTopic, "+#") {
				add("MQTT-3.3.2-2", "will topic %q contains wildcard characters", p.WillTopic)
			}
		}
		if !p.HasUser() && p.HasPassword() {
			add("MQTT-3.1.2-22", "password flag without user name flag")
		}
		chk("client identifier", p.ClientID, "MQTT-3.1.3-4")
		if p.ClientID == "" && !p.CleanSession() {
			add("MQTT-3.1.3-7", "zero-length client identifier with CleanSession 0")
		}
		if p.HasUser() {
			chk("user name", p.User, "MQTT-3.1.3-11")
		}
	case PUBLISH:
		if p.QoS == 3 {
			add("MQTT-3.3.1-4", "PUBLISH QoS 3")
		}
		if p.QoS == 0 && p.Dup {
			add("MQTT-3.3.1-2", "DUP set on a QoS 0 PUBLISH")
		}
		chk("topic name", p.Topic, "MQTT-3.3.2-1")
		if p.Topic == "" {
			add("MQTT-4.7.3-1", "empty topic name")
		}
		if strings.ContainsAny(p.Topic, "+#") {
			add("MQTT-3.3.2-2", "topic name %q contains wildcard characters", p.Topic)
		}
		if p.QoS > 0 && p.QoS < 3 && p.MsgID == 0 {
			add("MQTT-2.3.1-1", "PUBLISH QoS %d with packet identifier 0", p.QoS)
		}
	case PUBACK, PUBREC, PUBREL, PUBCOMP:
		// a zero identifier can only answer a peer's own zero identifier; not judged here
	case SUBSCRIBE:
		if p.MsgID == 0 {
			add("MQTT-2.3.1-1", "SUBSCRIBE with packet identifier 0")
		}
		if len(p.Filters) == 0 {
			add("MQTT-3.8.3-3", "SUBSCRIBE without a topic filter")
		}
		for i, f := range p.Filters {
			chk("topic filter", f, "MQTT-3.8.3-1")
			if ok, why := ValidFilter(f); !ok {
				add("MQTT-4.7.1", "topic filter %q: %s", f, why)
			}
			if p.QoSs[i] > 2 {
				add("MQTT-3.8.3-4", "requested QoS octet %#x", p.QoSs[i])
			}
		}
	case UNSUBSCRIBE:
		if p.MsgID == 0 {
			add("MQTT-2.3.1-1", "UNSUBSCRIBE with packet identifier 0")
		}
		if len(p.Filters) == 0 {
			add("MQTT-3.10.3-2", "UNSUBSCRIBE without a topic filter")
		}
		for _, f := range p.Filters {
			chk("topic filter", f, "MQTT-3.10.3-1")
			if ok, why := ValidFilter(f); !ok {
				add("MQTT-4.7.1", "topic filter %q: %s", f, why)
			}
		}
	case PINGREQ, DISCONNECT:
	default:
		add("MQTT-3", "%s is not a packet a client sends", TypeName(p.Type))
	}
	return is
}

// Match implements topic-filter matching (4.7). '$'-topics are outside the
// harness's alphabets.
func Match(filter, topic string) bool {
	f, t := strings.Split(filter, "/"), strings.Split(topic, "/")
	for i, fl := range f {
		if fl == "#" {
			return true // matches the parent level too
		}
		if i >= len(t) {
			return false
		}
		if fl != "+" && fl != t[i] {
			return false
		}
	}
	return len(f) == len(t)
}
