package cl

import (
	"fmt"
	"testing"
	"time"

	"pgregory.net/rapid"

	"verif/harness/clsim"
	"verif/harness/snref"
	"verif/harness/vf"
)

// ---- C17: client library QoS guarantees under loss ---------------------------------------------

// Fate of one transmission of a request: "lost" (the gateway never sees it),
// "acklost" (the gateway processes it, its acknowledgement is lost), "ok"
// (acknowledged), "dup" (acknowledged twice).
type c17Op struct {
	Call  clsim.Call `json:"call"`
	Fates [][]string `json:"fates"` // per protocol step, per transmission (original + retransmissions)
	// Deliver2: instead of an API call, the gateway delivers a QoS 2 message and
	// then repeats its PUBREL this many times after the exchange completed.
	Deliver2   bool `json:"deliver2,omitempty"`
	ExtraPubrel int  `json:"extra_pubrel,omitempty"`
	// GwDisconnects: the gateway answers the call's request with a DISCONNECT instead of the
	// acknowledgement (it has dropped the session): the call was not acknowledged, it must not return
	// nil; the history ends there
	GwDisconnects bool `json:"gw_disconnects,omitempty"`
	// Inbound2: when the first transmission of this call's request arrives, the gateway also starts a
	// QoS 2 delivery to the client which carries the same message ID as the request and completes
	// (PUBREC, PUBREL, PUBCOMP) while the call may still be waiting for its acknowledgement.
	Inbound2 bool `json:"inbound2,omitempty"`
}

type c17Case struct {
	// Eager > 0: the scripted gateway answers from the link's write hook, while the client's writing
	// goroutine is still inside the write (and yields Eager-1 times there)
	Eager   int     `json:"eager,omitempty"`
	Retries uint    `json:"retries"`
	RetryMs int     `json:"retry_ms"`
	Ops     []c17Op `json:"ops"`
}

func genFates(t *rapid.T, n int) []string {
	f := make([]string, n)
	mode := rapid.IntRange(0, 4).Draw(t, "fatemode")
	for i := range f {
		switch mode {
		case 0: // clean
			f[i] = "ok"
		case 1: // all lost: budget exceeded
			f[i] = rapid.SampledFrom([]string{"lost", "acklost", "stale"}).Draw(t, "fate")
		default:
			f[i] = rapid.SampledFrom([]string{"lost", "acklost", "ok", "dup", "lost", "acklost", "stale"}).Draw(t, "fate")
		}
	}
	return f
}

func genC17(t *rapid.T) c17Case {
	c := c17Case{Retries: uint(rapid.IntRange(0, 4).Draw(t, "retries")), RetryMs: rapid.SampledFrom([]int{1000, 3000}).Draw(t, "retry_ms"),
		Eager: rapid.SampledFrom([]int{0, 0, 0, 1, 2, 4, 11}).Draw(t, "eager")}
	n := rapid.IntRange(1, 6).Draw(t, "n")
	registered := false
	for i := 0; i < n; i++ {
		var op c17Op
		steps := 1
		switch rapid.SampledFrom([]string{"register", "subscribe", "unsubscribe", "publish", "publish", "publish", "deliver2"}).Draw(t, "kind") {
		case "register":
			op.Call = clsim.Call{API: "Register", Topic: "t/reg"}
			registered = true
		case "subscribe":
			op.Call = clsim.Call{API: "Subscribe", Topic: rapid.SampledFrom([]string{"t/a", "t/#", "ab"}).Draw(t, "filter"), QoS: uint8(rapid.IntRange(0, 2).Draw(t, "qos"))}
		case "unsubscribe":
			op.Call = clsim.Call{API: "Unsubscribe", Topic: rapid.SampledFrom([]string{"t/a", "t/#", "ab"}).Draw(t, "filter")}
		case "publish":
			qos := uint8(rapid.IntRange(0, 3).Draw(t, "qos"))
			payload := []byte(fmt.Sprintf("p%d", i))
			switch rapid.IntRange(0, 2).Draw(t, "form") {
			case 0:
				op.Call = clsim.Call{API: "Publish", Topic: "ab", QoS: qos, Payload: payload}
			case 1:
				op.Call = clsim.Call{API: "PublishPredefined", TopicID: 7, QoS: qos, Payload: payload}
			default:
				if !registered {
					c.Ops = append(c.Ops, c17Op{Call: clsim.Call{API: "Register", Topic: "t/reg"}, Fates: [][]string{{"ok"}}})
					registered = true
				}
				op.Call = clsim.Call{API: "Publish", Topic: "t/reg", QoS: qos, Payload: payload}
			}
			if qos == 2 {
				steps = 2
			}
			if qos == 0 || qos == 3 {
				steps = 0
			}
		case "deliver2":
			op.Deliver2 = true
			op.ExtraPubrel = rapid.IntRange(0, 3).Draw(t, "extra")
			steps = 0
		}
		for s := 0; s < steps; s++ {
			op.Fates = append(op.Fates, genFates(t, int(c.Retries)+1))
		}
		if steps > 0 && rapid.IntRange(0, 3).Draw(t, "inbound2") == 0 {
			op.Inbound2 = true
		}
		if steps > 0 && !op.Inbound2 && rapid.IntRange(0, 7).Draw(t, "gw_disconnects") == 0 {
			op.GwDisconnects = true
			c.Ops = append(c.Ops, op)
			return c
		}
		c.Ops = append(c.Ops, op)
	}
	return c
}

func fateOK(f string) bool { return f == "ok" || f == "dup" }

func runC17(c c17Case) (r vf.Result) {
	cfg := baseCfg()
	cfg.RetryCount, cfg.RetryDelayMs = c.Retries, c.RetryMs
	cfg.Predef = map[string]map[uint16]string{"*": {7: "p/seven"}}
	s, err := clsim.Start(cfg, nil)
	if err != nil {
		r.Fail("harness", "%v", err)
		return
	}
	defer s.Shutdown()
	g := clsim.NewGateway()
	g.NextTopicID = 10
	if err := connect(s, g); err != nil {
		r.Fail("harness-connect", "%v", err)
		return
	}
	if c.Eager > 0 {
		s.SetEager(c.Eager - 1)
		r.Label("eager-gateway")
	}
	var cur *c17Op
	seen := map[string]int{} // transmissions seen per (type, msgID) of the current call
	var pubcompOwed, pubcompGot int
	var lastPubcompMid uint16
	inbound := map[uint16]string{} // message ID of a gateway-started QoS 2 delivery -> "pubrec" / "pubcomp" awaited / "done"
	s.Respond = func(p snref.Pkt) []snref.Pkt {
		if p.Type == snref.PUBCOMP {
			pubcompGot++
			lastPubcompMid = p.MsgID
			if inbound[p.MsgID] == "pubcomp" {
				inbound[p.MsgID] = "done"
			}
			return nil
		}
		if p.Type == snref.PUBREC && inbound[p.MsgID] == "pubrec" {
			// (a PUBREC can only come from the client as the receiver of our QoS 2 delivery)
			inbound[p.MsgID] = "pubcomp"
			return []snref.Pkt{{Type: snref.PUBREL, MsgID: p.MsgID}}
		}
		if p.Type == snref.PUBREC || p.Type == snref.PUBACK || p.Type == snref.REGACK {
			return nil // answers to the gateway's own packets are handled by the op itself
		}
		if cur == nil || cur.Deliver2 {
			return g.Answer(p)
		}
		if cur.GwDisconnects && (p.Type == snref.PUBLISH || p.Type == snref.SUBSCRIBE || p.Type == snref.UNSUBSCRIBE || p.Type == snref.REGISTER) {
			return []snref.Pkt{{Type: snref.DISCONNECT, NoDuration: true}}
		}
		step := 0
		if p.Type == snref.PUBREL {
			step = 1
		}
		if step >= len(cur.Fates) {
			return g.Answer(p)
		}
		key := fmt.Sprintf("%d/%d", p.Type, p.MsgID)
		k := seen[key]
		seen[key]++
		var extra []snref.Pkt
		if cur.Inbound2 && k == 0 && step == 0 && inbound[p.MsgID] == "" {
			inbound[p.MsgID] = "pubrec"
			extra = []snref.Pkt{{Type: snref.PUBLISH, TIT: snref.TITShort, TopicID: snref.ShortID("ab"), QoS: 2, MsgID: p.MsgID, Data: []byte("in2")}}
		}
		fate := "lost"
		if k < len(cur.Fates[step]) {
			fate = cur.Fates[step][k]
		}
		switch fate {
		case "lost":
			return extra
		case "acklost":
			g.Answer(p) // the gateway processes the request (e.g. hands out a topic ID)
			return extra
		case "stale":
			// the transmission is lost, and a stale acknowledgement of another kind with the same message
			// ID arrives (a late duplicate from an exchange which used the ID before, e.g. before the
			// client restarted on the same port): not the acknowledgement this step waits for
			var wrong byte
			switch p.Type {
			case snref.PUBLISH:
				wrong = snref.PUBCOMP
				if p.QoS == 1 {
					wrong = snref.PUBREC
				}
			case snref.PUBREL:
				wrong = snref.PUBACK
			case snref.SUBSCRIBE:
				wrong = snref.UNSUBACK
			case snref.UNSUBSCRIBE:
				wrong = snref.PUBCOMP
			case snref.REGISTER:
				wrong = snref.PUBACK
			}
			if wrong != 0 {
				return append(extra, snref.Pkt{Type: wrong, MsgID: p.MsgID})
			}
			return extra
		case "dup":
			a := g.Answer(p)
			return append(extra, append(a, a...)...)
		}
		return append(extra, g.Answer(p)...)
	}
	dgBefore := 0
	for i := range c.Ops {
		op := &c.Ops[i]
		cur = op
		seen = map[string]int{}
		dgBefore = len(s.ClientDatagrams())
		if op.Deliver2 {
			mid := uint16(500 + i)
			s.GatewaySend(snref.Pkt{Type: snref.PUBLISH, TIT: snref.TITShort, TopicID: snref.ShortID("ab"), QoS: 2, MsgID: mid, Data: []byte("d2")}, false)
			s.Settle()
			for k := 0; k <= op.ExtraPubrel; k++ {
				pubcompOwed++
				before := pubcompGot
				s.GatewaySend(snref.Pkt{Type: snref.PUBREL, MsgID: mid}, false)
				s.Settle()
				if pubcompGot != before+1 {
					kind := "pubrel-unanswered/first"
					if k > 0 {
						kind = "pubrel-unanswered/after-completion"
						r.Label("pubrel-after-completion")
					}
					r.Fail(kind, "PUBREL #%d for message ID %d got %d PUBCOMP(s), expected one\n%s", k+1, mid, pubcompGot-before, s.Dump(25))
					return
				}
				if lastPubcompMid != mid {
					kind := "pubcomp-other-message-id/first"
					if k > 0 {
						kind = "pubcomp-other-message-id/after-completion"
					}
					r.Fail(kind, "PUBREL #%d for message ID %d was answered with PUBCOMP for message ID %d\n%s", k+1, mid, lastPubcompMid, s.Dump(25))
					return
				}
			}
			if op.ExtraPubrel > 0 {
				r.NonTrivial = true
				r.Label("pubrel-after-completion")
			}
			continue
		}
		steps := len(op.Fates)
		cs := s.Go(op.Call)
		max := time.Duration(c.RetryMs) * time.Millisecond * time.Duration(int(c.Retries)+2) * time.Duration(steps+1)
		if !s.WaitCall(cs, max+5*time.Second) {
			r.Fail("call-did-not-return/"+op.Call.API, "%v still blocked after %v\n%s", op.Call, max, s.Dump(30))
			return
		}
		if op.GwDisconnects {
			r.NonTrivial = true
			r.Label("gateway-answers-with-disconnect")
			if cs.Err == nil {
				r.Fail("nil-although-never-acknowledged/"+fmt.Sprintf("%s/qos=%d", op.Call.API, op.Call.QoS)+"/gateway-disconnected", "%v returned nil although the gateway answered with DISCONNECT and never acknowledged it\n%s", op.Call, s.Dump(30))
			}
			return
		}
		// expected outcome from the plan
		wantOK := true
		lossy := false
		for _, fs := range op.Fates {
			any := false
			for _, f := range fs {
				if f != "ok" {
					lossy = true
				}
				if fateOK(f) {
					any = true
					break
				}
			}
			if !any {
				wantOK = false
				break // later steps are never reached
			}
		}
		if lossy {
			r.NonTrivial = true
		}
		api := fmt.Sprintf("%s/qos=%d", op.Call.API, op.Call.QoS)
		if steps > 0 {
			if wantOK && cs.Err != nil {
				r.Fail("error-although-acknowledged/"+api, "%v returned %v although the plan %v delivers the acknowledgement within the retry budget (%d retries)\n%s", op.Call, cs.Err, op.Fates, c.Retries, s.Dump(30))
				return
			}
			if !wantOK && cs.Err == nil {
				r.Fail("nil-although-never-acknowledged/"+api, "%v returned nil although the plan %v never delivers the acknowledgement within the retry budget (%d retries)\n%s", op.Call, op.Fates, c.Retries, s.Dump(30))
				return
			}
		}
		// DUP and message ID of retransmissions
		first := map[string]bool{}
		for _, e := range s.ClientDatagrams()[dgBefore:] {
			if e.SN == nil || (e.SN.Type != snref.PUBLISH && e.SN.Type != snref.SUBSCRIBE) {
				continue
			}
			key := fmt.Sprintf("%d/%d", e.SN.Type, e.SN.MsgID)
			if !first[key] {
				first[key] = true
				if e.SN.DUP {
					r.Fail("dup-on-first-transmission/"+snref.TypeName(e.SN.Type), "first transmission %v has DUP=1\n%s", *e.SN, s.Dump(30))
					return
				}
				continue
			}
			r.Label("retransmission:" + snref.TypeName(e.SN.Type))
			if !e.SN.DUP {
				r.Fail("retransmission-without-dup/"+snref.TypeName(e.SN.Type), "retransmitted %v has DUP=0\n%s", *e.SN, s.Dump(30))
				return
			}
		}
		// one message ID per call
		ids := map[uint16]bool{}
		for _, e := range s.ClientDatagrams()[dgBefore:] {
			if e.SN != nil && (e.SN.Type == snref.PUBLISH || e.SN.Type == snref.SUBSCRIBE || e.SN.Type == snref.REGISTER || e.SN.Type == snref.UNSUBSCRIBE) {
				ids[e.SN.MsgID] = true
			}
		}
		if len(ids) > 1 {
			r.Fail("retransmission-changes-message-id/"+op.Call.API, "%v used %d different message IDs\n%s", op.Call, len(ids), s.Dump(30))
			return
		}
		if !wantOK || cs.Err != nil {
			// a failed call may leave the client in any documented state; stop judging this history
			break
		}
	}
	return
}

func TestC17(t *testing.T) {
	vf.Check(t, vf.Prop[c17Case]{
		ID: "C17", Name: "client-qos-under-loss", Bubble: true,
		Rule: "real client (RetryCount 0-4) against a scripted gateway with a drawn fate for every transmission (original and each retransmission) of every protocol step of Register, Subscribe, Unsubscribe and Publish (QoS 0-3; short, predefined and registered topics): lost / processed but acknowledgement lost / acknowledged / acknowledged twice / answered with a DISCONNECT of the gateway instead (the call must then fail) / lost while a stale acknowledgement of another kind with the same message ID arrives (PUBCOMP for a QoS 2 PUBLISH which awaits PUBREC, PUBREC for a QoS 1 one, PUBACK for a PUBREL, ...); plus QoS 2 deliveries from the gateway whose PUBREL is repeated 0-3 times after the exchange completed; a quarter of the calls overlap with a complete QoS 2 delivery from the gateway which carries the call's own message ID. Non-trivial = a plan with at least one loss, or a PUBREL after completion; distinct by case.",
		Assumptions: []string{"PUBACKs with a rejecting return code and PUBRELs for message IDs that never existed are not generated", "after a call that the plan makes fail, the rest of the history is not judged"},
		Gen:         genC17,
		Run:         runC17,
	})
}
