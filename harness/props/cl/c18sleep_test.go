package cl

import (
	"sync"
	"testing"
	"time"

	"pgregory.net/rapid"

	"verif/harness/clsim"
	"verif/harness/snref"
	"verif/harness/vf"
)

// ---- C18 (sleep transaction through the client API) ---------------------------------------------

type c18sCase struct {
	RetryNs   int64   `json:"retry_ns"`
	Retries   uint    `json:"retries"`
	KeepAlive int     `json:"keepalive_ms"`
	Sleeps    []int   `json:"sleeps_ms"`
	Immediate []bool  `json:"immediate"` // per datagram: the gateway's answer is queued while the client is still inside its send
	DropFirst int     `json:"drop_first_disconnects"`
	ExtraDisc bool    `json:"extra_disconnect"` // the gateway repeats its DISCONNECT reply (a duplicate)
}

func TestC18Sleep(t *testing.T) {
	vf.Check(t, vf.Prop[c18sCase]{
		ID: "C18", Name: "sleep-transaction", Bubble: true, MarkCurrent: true,
		Rule: "real client (race-detector build): 1-3 Sleep calls (1-3 s; the later ones from the awake state or after reconnecting) with RetryDelay from {1 ns, 1 ms, 1 s, 10 s}, against a gateway whose answers (DISCONNECT reply, PINGRESP) are, per datagram, either queued synchronously inside the client's own send -- so that the receive loop can handle the reply before Sleep() has armed its retry timer -- or sent after the client went quiet; optionally the first 0-2 DISCONNECTs are dropped (retransmission path) and the reply is duplicated. Non-trivial = at least one synchronous answer or a minimal retry delay; distinct by case.",
		Assumptions: []string{"oracle: Sleep returns nil when the gateway answers within the retry budget, no panic, no race report (both kill the process; the driver attributes the death to the case written to disk beforehand)"},
		Gen: func(t *rapid.T) c18sCase {
			c := c18sCase{RetryNs: rapid.SampledFrom([]int64{1, 1e6, 1e9, 10e9}).Draw(t, "retry"), Retries: uint(rapid.IntRange(1, 3).Draw(t, "retries")),
				KeepAlive: rapid.SampledFrom([]int{0, 1000}).Draw(t, "keepalive"), ExtraDisc: rapid.Bool().Draw(t, "extra")}
			n := rapid.IntRange(1, 3).Draw(t, "nsleeps")
			for i := 0; i < n; i++ {
				c.Sleeps = append(c.Sleeps, rapid.SampledFrom([]int{1000, 2000, 3000}).Draw(t, "sleep_ms"))
			}
			for i := 0; i < 12; i++ {
				c.Immediate = append(c.Immediate, rapid.Bool().Draw(t, "immediate"))
			}
			if c.RetryNs >= 1e6 {
				c.DropFirst = rapid.IntRange(0, int(c.Retries)).Draw(t, "drop")
				if c.DropFirst > 2 {
					c.DropFirst = 2
				}
			}
			return c
		},
		Run: func(c c18sCase) (r vf.Result) {
			cfg := baseCfg()
			cfg.RetryDelayMs = 0
			cfg.KeepAliveMs, cfg.RetryCount = c.KeepAlive, c.Retries
			s, err := clsim.Start(cfg, nil)
			if err != nil {
				r.Fail("harness", "%v", err)
				return
			}
			// the retry delay may be below a millisecond
			s.SetRetryDelay(time.Duration(c.RetryNs))
			defer s.Shutdown()
			g := clsim.NewGateway()
			var mu sync.Mutex
			nth, dropped := 0, 0
			answer := func(p snref.Pkt) []snref.Pkt {
				if p.Type == snref.DISCONNECT && !p.NoDuration && dropped < c.DropFirst {
					dropped++
					return nil
				}
				a := g.Answer(p)
				if p.Type == snref.DISCONNECT && c.ExtraDisc {
					a = append(a, a...)
				}
				return a
			}
			var late []snref.Pkt
			s.Link.OnWrite = func(b []byte) {
				p, _, err := snref.Decode(b, false)
				if err != nil {
					return
				}
				mu.Lock()
				defer mu.Unlock()
				k := nth
				nth++
				if k < len(c.Immediate) && c.Immediate[k] {
					r.NonTrivial = true
					for _, a := range answer(p) {
						s.Link.Send(snref.Encode(a))
					}
					return
				}
				late = append(late, p)
			}
			flush := func() {
				mu.Lock()
				ps := late
				late = nil
				mu.Unlock()
				for _, p := range ps {
					mu.Lock()
					as := answer(p)
					mu.Unlock()
					for _, a := range as {
						s.Link.Send(snref.Encode(a))
					}
				}
			}
			wait := func(cs *clsim.CallState, max time.Duration) bool {
				end := time.Now().Add(max)
				for {
					s.Settle()
					flush()
					s.Settle()
					if cs.Finished() {
						return true
					}
					if time.Until(end) <= 0 {
						return false
					}
					time.Sleep(time.Millisecond * 50)
				}
			}
			if c.RetryNs <= 1 {
				r.NonTrivial = true
			}
			cs := s.Go(clsim.Call{API: "Connect"})
			if !wait(cs, time.Minute) || cs.Err != nil {
				r.Fail("harness-connect", "%v", cs.Err)
				return
			}
			for i, d := range c.Sleeps {
				cs := s.Go(clsim.Call{API: "Sleep", DurMs: d})
				if !wait(cs, 3*time.Minute) {
					r.Fail("sleep-never-returns", "Sleep #%d did not return\n%s", i+1, s.Dump(30))
					return
				}
				// with a minimal retry delay the retry budget runs out before any answer can arrive: an error is fine then
				// (late answers are delivered at 50 ms steps, so only retry delays of 1 s and more leave room for them)
				if cs.Err != nil && c.RetryNs >= 1e9 {
					r.Fail("sleep-fails", "Sleep #%d returned %v although the gateway answered within the retry budget\n%s", i+1, cs.Err, s.Dump(30))
					return
				}
				if cs.Err != nil {
					return
				}
				if i%2 == 1 {
					cc := s.Go(clsim.Call{API: "Connect"})
					if !wait(cc, time.Minute) {
						return
					}
				}
			}
			return
		},
	})
}
