package cl

import (
	"fmt"
	"sync"
	"testing"
	"time"

	"pgregory.net/rapid"

	"verif/harness/clsim"
	"verif/harness/snref"
	"verif/harness/vf"
)

// ---- C19 (client side): the connect exchange is timed by ConnectTimeout ----------------------------
//
// The client's CONNECT is a timed transaction whose timeout is the configured ConnectTimeout (not the
// RetryDelay of the other exchanges): with a gateway that answers late or never, the CONNECT datagrams
// are exactly ConnectTimeout apart, an answer which comes within the timeout of the current attempt
// makes Connect() return nil at that instant, and without an answer Connect() fails exactly
// (RetryCount+1) x ConnectTimeout after it started.

type c19cCase struct {
	ConnectTimeoutMs int  `json:"connect_timeout_ms"`
	RetryMs          int  `json:"retry_ms"`
	Retries          uint `json:"retries"`
	Silent           int  `json:"silent_attempts"` // the gateway ignores that many CONNECTs ...
	AnswerAfterMs    int  `json:"answer_after_ms"` // ... and answers the next one after this delay (-1: never answers)
}

func TestC19Connect(t *testing.T) {
	vf.Check(t, vf.Prop[c19cCase]{
		ID: "C19", Name: "client-connect-timeout", Bubble: true,
		Rule: "real client with ConnectTimeout in {1.5 s, 4 s} and RetryDelay in {0.3 s, 1 s, 10 s} (never equal), RetryCount 0-3, against a gateway which ignores the first k CONNECTs (k <= RetryCount+1) and answers the next one after a drawn delay (below, at 90% of, or above the timeout) or never. Non-trivial = at least one attempt times out; distinct by case.",
		Assumptions: []string{"oracle on virtual timestamps (1 ms tolerance): CONNECT datagrams exactly ConnectTimeout apart; Connect() returns nil when the CONNACK of the current attempt arrives, and fails (RetryCount+1) x ConnectTimeout after its start otherwise"},
		Gen: func(t *rapid.T) c19cCase {
			c := c19cCase{ConnectTimeoutMs: rapid.SampledFrom([]int{1500, 4000}).Draw(t, "ct"), RetryMs: rapid.SampledFrom([]int{300, 1000, 10000}).Draw(t, "retry"),
				Retries: uint(rapid.IntRange(0, 3).Draw(t, "retries"))}
			c.Silent = rapid.IntRange(0, int(c.Retries)+1).Draw(t, "silent")
			switch rapid.IntRange(0, 4).Draw(t, "answer") {
			case 0:
				c.AnswerAfterMs = -1
			case 1:
				c.AnswerAfterMs = 0
			case 2:
				c.AnswerAfterMs = c.ConnectTimeoutMs * 9 / 10
			case 3:
				c.AnswerAfterMs = c.RetryMs + 50 // later than a RetryDelay would allow
			default:
				c.AnswerAfterMs = c.ConnectTimeoutMs + 200
			}
			return c
		},
		Run: func(c c19cCase) (r vf.Result) {
			cfg := baseCfg()
			cfg.ConnectTimeoutMs, cfg.RetryDelayMs, cfg.RetryCount = c.ConnectTimeoutMs, c.RetryMs, c.Retries
			s, err := clsim.Start(cfg, nil)
			if err != nil {
				r.Fail("harness", "%v", err)
				return
			}
			defer s.Shutdown()
			seen := 0
			var wg sync.WaitGroup
			defer wg.Wait()
			s.Respond = func(p snref.Pkt) []snref.Pkt {
				if p.Type != snref.CONNECT {
					return nil
				}
				seen++
				if seen <= c.Silent || c.AnswerAfterMs < 0 {
					return nil
				}
				if seen == c.Silent+1 {
					if c.AnswerAfterMs == 0 {
						return []snref.Pkt{{Type: snref.CONNACK, RC: 0}}
					}
					wg.Add(1)
					go func() {
						defer wg.Done()
						time.Sleep(time.Duration(c.AnswerAfterMs) * time.Millisecond)
						s.GatewaySend(snref.Pkt{Type: snref.CONNACK, RC: 0}, true)
					}()
				}
				return nil
			}
			cs := s.Go(clsim.Call{API: "Connect"})
			CT := int64(c.ConnectTimeoutMs) * 1e6
			attempts := int64(c.Retries) + 1
			if !s.WaitCall(cs, time.Duration(attempts*CT)+time.Minute) {
				r.Fail("connect-never-returns", "Connect() has not returned %v after its start\n%s", time.Duration(attempts*CT)+time.Minute, s.Dump(30))
				return
			}
			wg.Wait() // a late answer may still be on its way
			s.Settle()
			const eps = int64(1e6)
			// expectation
			// (a CONNACK carries no message ID: one which misses its own attempt answers the next one)
			answerAt := int64(c.Silent)*CT + int64(c.AnswerAfterMs)*1e6
			answered := c.AnswerAfterMs >= 0 && int64(c.Silent) < attempts && answerAt < attempts*CT
			var wantEnd int64
			var wantConnects int64
			if answered {
				wantEnd = answerAt
				wantConnects = answerAt/CT + 1
			} else {
				wantEnd = attempts * CT
				wantConnects = attempts
			}
			r.NonTrivial = c.Silent > 0 || !answered
			desc := fmt.Sprintf("ConnectTimeout %d ms, RetryDelay %d ms, RetryCount %d, gateway ignores %d CONNECTs then answers after %d ms", c.ConnectTimeoutMs, c.RetryMs, c.Retries, c.Silent, c.AnswerAfterMs)
			var times []int64
			for _, e := range s.ClientDatagrams() {
				if e.SN != nil && e.SN.Type == snref.CONNECT {
					times = append(times, e.Ns-cs.StartNs)
				}
			}
			if int64(len(times)) != wantConnects {
				r.Fail("connect-transmissions", "%s: %d CONNECT datagrams at %v ns after the call, expected %d\n%s", desc, len(times), times, wantConnects, s.Dump(30))
				return
			}
			for i, at := range times {
				if d := at - int64(i)*CT; d < -eps || d > eps {
					r.Fail("connect-retransmission-time", "%s: CONNECT #%d sent %.3f s after the call, expected %.3f s (one ConnectTimeout per attempt)\n%s", desc, i+1, float64(at)/1e9, float64(int64(i)*CT)/1e9, s.Dump(30))
					return
				}
			}
			took := cs.EndNs - cs.StartNs
			if answered != (cs.Err == nil) {
				r.Fail("connect-outcome", "%s: Connect() returned %v after %.3f s\n%s", desc, cs.Err, float64(took)/1e9, s.Dump(30))
				return
			}
			if d := took - wantEnd; d < -eps || d > eps+int64(1e9)*0 {
				r.Fail("connect-return-time", "%s: Connect() returned (%v) after %.3f s, expected %.3f s\n%s", desc, cs.Err, float64(took)/1e9, float64(wantEnd)/1e9, s.Dump(30))
			}
			return
		},
	})
}
