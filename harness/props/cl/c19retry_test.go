package cl

import (
	"fmt"
	"sync"
	"testing"
	"time"

	"pgregory.net/rapid"

	"verif/harness/clsim"
	"verif/harness/snref"
	"verif/harness/vf"
)

// ---- C19 (client side): only progress resets the retry budget --------------------------------------
//
// A call of the real client whose last protocol step the gateway never answers: the pending packet
// goes out RetryCount more times, RetryDelay apart, and the call fails one RetryDelay after the last
// one - whatever else arrives meanwhile that is not progress: duplicates of the acknowledgement of
// the previous step (the gateway answered a retransmission too), stale acknowledgements of another
// kind with the same message ID.

type c19rNoise struct {
	AfterMs int    `json:"after_ms"` // after the progress into the last step
	Kind    string `json:"kind"`     // prevack: duplicate of the previous step's acknowledgement; stale: another kind
}

type c19rCase struct {
	API     string      `json:"api"` // Publish2 Publish1 Subscribe Register
	RetryMs int         `json:"retry_ms"`
	Retries uint        `json:"retries"`
	Ignored int         `json:"ignored"` // Publish2: transmissions of the PUBLISH left unanswered before the PUBREC
	Noise   []c19rNoise `json:"noise"`
}

func genC19Retry(t *rapid.T) c19rCase {
	c := c19rCase{API: rapid.SampledFrom([]string{"Publish2", "Publish2", "Publish1", "Subscribe", "Register"}).Draw(t, "api"),
		RetryMs: rapid.SampledFrom([]int{300, 1000}).Draw(t, "retry_ms"), Retries: uint(rapid.IntRange(0, 3).Draw(t, "retries"))}
	if c.API == "Publish2" {
		c.Ignored = rapid.IntRange(0, int(c.Retries)).Draw(t, "ignored")
	}
	rd := c.RetryMs
	for i := rapid.IntRange(0, 6).Draw(t, "nnoise"); i > 0; i-- {
		k := rapid.IntRange(0, int(c.Retries)).Draw(t, "period")
		off := rapid.SampledFrom([]int{1, rd / 2, rd / 2, rd - 1, rd * 9 / 10}).Draw(t, "offset")
		n := c19rNoise{AfterMs: k*rd + off, Kind: "stale"}
		if c.API == "Publish2" && rapid.IntRange(0, 2).Draw(t, "prevack") > 0 {
			n.Kind = "prevack"
		}
		c.Noise = append(c.Noise, n)
	}
	return c
}

func runC19Retry(c c19rCase) (r vf.Result) {
	cfg := baseCfg()
	cfg.RetryDelayMs, cfg.RetryCount = c.RetryMs, c.Retries
	s, err := clsim.Start(cfg, nil)
	if err != nil {
		r.Fail("harness", "%v", err)
		return
	}
	defer s.Shutdown()
	g := clsim.NewGateway()
	if err := connect(s, g); err != nil {
		r.Fail("harness-connect", "%v", err)
		return
	}
	var call clsim.Call
	var first, last byte // type of the first request, type of the packet pending in the last step
	switch c.API {
	case "Publish2":
		call, first, last = clsim.Call{API: "Publish", Topic: "ab", QoS: 2, Payload: []byte("x")}, snref.PUBLISH, snref.PUBREL
	case "Publish1":
		call, first, last = clsim.Call{API: "Publish", Topic: "ab", QoS: 1, Payload: []byte("x")}, snref.PUBLISH, snref.PUBLISH
	case "Subscribe":
		call, first, last = clsim.Call{API: "Subscribe", Topic: "t/a", QoS: 1}, snref.SUBSCRIBE, snref.SUBSCRIBE
	default:
		call, first, last = clsim.Call{API: "Register", Topic: "t/reg"}, snref.REGISTER, snref.REGISTER
	}
	var wg sync.WaitGroup
	defer wg.Wait()
	seenFirst := 0
	progressed := false
	var mid uint16
	startNoise := func() {
		for _, n := range c.Noise {
			n := n
			wg.Add(1)
			go func() {
				defer wg.Done()
				time.Sleep(time.Duration(n.AfterMs) * time.Millisecond)
				p := snref.Pkt{MsgID: mid}
				switch {
				case n.Kind == "prevack":
					p.Type = snref.PUBREC
				case last == snref.PUBREL:
					p.Type = snref.PUBACK
				case last == snref.PUBLISH:
					p.Type = snref.PUBCOMP
				case last == snref.SUBSCRIBE:
					p.Type = snref.UNSUBACK
				default:
					p.Type = snref.PUBACK
				}
				s.GatewaySend(p, true)
			}()
		}
	}
	s.Respond = func(p snref.Pkt) []snref.Pkt {
		if p.Type == first && !progressed {
			mid = p.MsgID
			seenFirst++
			if c.API == "Publish2" {
				if seenFirst <= c.Ignored {
					return nil
				}
				progressed = true
				startNoise()
				return []snref.Pkt{{Type: snref.PUBREC, MsgID: p.MsgID}}
			}
			if seenFirst == 1 {
				progressed = true // a one-step call is in its last step from the start
				startNoise()
			}
		}
		return nil
	}
	cs := s.Go(call)
	RD := int64(c.RetryMs) * 1e6
	total := time.Duration(RD) * time.Duration(int(c.Retries)+2+c.Ignored)
	if !s.WaitCall(cs, total+30*time.Second) {
		r.Fail("call-never-returns/"+c.API, "%v has not returned %v after its start\n%s", call, total+30*time.Second, s.Dump(40))
		return
	}
	wg.Wait()
	s.Settle()
	r.NonTrivial = len(c.Noise) > 0 || c.Ignored > 0
	for _, n := range c.Noise {
		r.Label("noise=" + n.Kind)
	}
	desc := fmt.Sprintf("%s, RetryDelay %d ms, RetryCount %d, %d transmissions ignored before the first acknowledgement, noise %v", c.API, c.RetryMs, c.Retries, c.Ignored, c.Noise)
	const eps = int64(1e6)
	// the last step begins when the call starts (one step) or when the PUBREC arrives (QoS 2)
	P := int64(0)
	if c.API == "Publish2" {
		P = int64(c.Ignored) * RD
	}
	var times []int64
	for _, e := range s.ClientDatagrams() {
		if e.SN != nil && e.SN.Type == last && e.Ns >= cs.StartNs {
			times = append(times, e.Ns-cs.StartNs)
		}
	}
	if c.API != "Publish2" {
		// (for one-step calls the first transmission is the request itself)
	}
	want := int(c.Retries) + 1
	if c.API == "Publish1" {
		// PUBLISH transmissions of a QoS 1 call: all of them are the pending packet
	}
	if len(times) != want {
		r.Fail("retransmission-count/"+c.API, "%s: the pending %s went out %d times (at %v ns after the call), expected %d (once and RetryCount retries)\n%s", desc, snref.TypeName(last), len(times), times, want, s.Dump(40))
		return
	}
	for i, at := range times {
		if d := at - (P + int64(i)*RD); d < -eps || d > eps {
			r.Fail("retransmission-time/"+c.API, "%s: transmission #%d of the pending %s %.3f s after the call, expected %.3f s (RetryDelay apart from the progress at %.3f s)\n%s", desc, i+1, snref.TypeName(last), float64(at)/1e9, float64(P+int64(i)*RD)/1e9, float64(P)/1e9, s.Dump(40))
			return
		}
	}
	if cs.Err == nil {
		r.Fail("nil-without-acknowledgement/"+c.API, "%s: the call returned nil although its last step was never acknowledged\n%s", desc, s.Dump(40))
		return
	}
	took := cs.EndNs - cs.StartNs
	if d := took - (P + int64(want)*RD); d < -eps || d > eps {
		r.Fail("failure-time/"+c.API, "%s: the call failed (%v) %.3f s after its start, expected %.3f s (one RetryDelay after the last retry)\n%s", desc, cs.Err, float64(took)/1e9, float64(P+int64(want)*RD)/1e9, s.Dump(40))
	}
	return
}

func TestC19Retry(t *testing.T) {
	vf.Check(t, vf.Prop[c19rCase]{
		ID: "C19", Name: "client-retry-schedule", Bubble: true,
		Rule: "real client (RetryDelay 0.3 s / 1 s, RetryCount 0-3): Publish QoS 2 (the gateway ignores 0..RetryCount transmissions, then sends PUBREC, then never PUBCOMP), Publish QoS 1, Subscribe, Register (never acknowledged), with 0-6 packets which are not progress arriving at drawn instants inside the retry periods of the last step: duplicates of the PUBREC, stale acknowledgements of another kind with the call's message ID. Non-trivial = noise or ignored transmissions; distinct by case.",
		Assumptions: []string{"oracle on virtual timestamps (1 ms tolerance): the pending packet of the last step goes out RetryCount+1 times, RetryDelay apart, counted from the progress into that step; the call fails one RetryDelay after the last of them; noise never coincides with a timer (offsets are strictly inside the periods)"},
		Gen:         genC19Retry,
		Run:         runC19Retry,
	})
}
