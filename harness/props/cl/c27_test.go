package cl

import (
	"fmt"
	"strings"
	"testing"
	"time"

	"pgregory.net/rapid"

	"verif/harness/clsim"
	"verif/harness/mqttref"
	"verif/harness/snref"
	"verif/harness/vf"
)

func baseCfg() clsim.Config {
	return clsim.Config{ClientID: "cl", ConnectTimeoutMs: 5000, RetryDelayMs: 2000, RetryCount: 2, CleanSession: true}
}

// connect brings the client to the active state against gateway g.
func connect(s *clsim.Sim, g *clsim.Gateway) error {
	s.Respond = g.Answer
	cs := s.Go(clsim.Call{API: "Connect"})
	if !s.WaitCall(cs, time.Minute) {
		return fmt.Errorf("Connect did not return")
	}
	return cs.Err
}

// ---- C27: dispatch follows MQTT topic-filter matching -------------------------------------------

type c27Op struct {
	Op     string `json:"op"` // sub unsub deliver
	Filter string `json:"filter,omitempty"`
	Topic  string `json:"topic,omitempty"`
	QoS    uint8  `json:"qos,omitempty"`
	Via    string `json:"via,omitempty"` // registered short predefined
	// Refused (sub): the gateway refuses the subscription (SUBACK with this return code, 1-3): Subscribe
	// must fail and the filter is not a current subscription
	Refused byte `json:"refused,omitempty"`
	// Between: Subscribe/Unsubscribe calls which complete between the QoS 2 PUBLISH (answered with
	// PUBREC) and its PUBREL: the delivery happens at PUBREL, with the subscriptions current then.
	Between []c27Op `json:"between,omitempty"`
}

type c27Case struct {
	// Eager > 0: the scripted gateway answers from the link's write hook (the client's writer yields Eager-1 times there)
	Eager int     `json:"eager,omitempty"`
	Ops   []c27Op `json:"ops"`
}

var c27Predef = map[string]map[uint16]string{"*": {1: "a", 2: "a/b", 3: "b/", 4: "/", 5: "a/b/a"}}

func genFilter(t *rapid.T) string {
	n := rapid.IntRange(0, 3).Draw(t, "flevels")
	var lv []string
	for i := 0; i < n; i++ {
		lv = append(lv, rapid.SampledFrom([]string{"a", "b", "", "+"}).Draw(t, "flevel"))
	}
	if n == 0 || rapid.IntRange(0, 2).Draw(t, "hash") == 0 {
		lv = append(lv, "#")
	}
	f := strings.Join(lv, "/")
	if f == "" {
		f = "+"
	}
	return f
}

func genTopic(t *rapid.T) string {
	n := rapid.IntRange(1, 4).Draw(t, "tlevels")
	var lv []string
	for i := 0; i < n; i++ {
		lv = append(lv, rapid.SampledFrom([]string{"a", "b", ""}).Draw(t, "tlevel"))
	}
	tp := strings.Join(lv, "/")
	if tp == "" {
		tp = "a"
	}
	return tp
}

func genC27(t *rapid.T) c27Case {
	var c c27Case
	c.Eager = rapid.SampledFrom([]int{0, 0, 0, 1, 2, 4, 11}).Draw(t, "eager")
	n := rapid.IntRange(2, 14).Draw(t, "n")
	var subs []string
	for i := 0; i < n; i++ {
		switch k := rapid.IntRange(0, 9).Draw(t, "kind"); {
		case k < 3 || len(subs) == 0:
			f := genFilter(t)
			if rapid.IntRange(0, 4).Draw(t, "plainsub") == 0 {
				f = genTopic(t) // a filter without wildcards
			}
			if rapid.IntRange(0, 4).Draw(t, "refused") == 0 {
				c.Ops = append(c.Ops, c27Op{Op: "sub", Filter: f, QoS: uint8(rapid.IntRange(0, 2).Draw(t, "sqos")), Refused: byte(rapid.IntRange(1, 3).Draw(t, "refusal_rc"))})
				continue
			}
			subs = append(subs, f)
			c.Ops = append(c.Ops, c27Op{Op: "sub", Filter: f, QoS: uint8(rapid.IntRange(0, 2).Draw(t, "sqos"))})
		case k < 5:
			c.Ops = append(c.Ops, c27Op{Op: "unsub", Filter: rapid.SampledFrom(subs).Draw(t, "unsub")})
		default:
			op := c27Op{Op: "deliver", Topic: genTopic(t), QoS: uint8(rapid.IntRange(0, 2).Draw(t, "dqos")), Via: "registered"}
			if len(op.Topic) == 2 {
				op.Via = "short"
			}
			for id, name := range c27Predef["*"] {
				_ = id
				if name == op.Topic && rapid.Bool().Draw(t, "viapredef") {
					op.Via = "predefined"
				}
			}
			if op.QoS == 2 && rapid.Bool().Draw(t, "between") {
				nb := rapid.IntRange(1, 2).Draw(t, "nbetween")
				for j := 0; j < nb; j++ {
					if len(subs) > 0 && rapid.Bool().Draw(t, "between_unsub") {
						op.Between = append(op.Between, c27Op{Op: "unsub", Filter: rapid.SampledFrom(subs).Draw(t, "bunsub")})
					} else {
						f := genFilter(t)
						if rapid.IntRange(0, 2).Draw(t, "bexact") == 0 {
							f = op.Topic // a filter which matches this very topic
						}
						subs = append(subs, f)
						op.Between = append(op.Between, c27Op{Op: "sub", Filter: f, QoS: uint8(rapid.IntRange(0, 2).Draw(t, "bqos"))})
					}
				}
			}
			c.Ops = append(c.Ops, op)
		}
	}
	return c
}

func predefID(name string) uint16 {
	for id, n := range c27Predef["*"] {
		if n == name {
			return id
		}
	}
	return 0
}

func runC27(c c27Case) (r vf.Result) {
	cfg := baseCfg()
	cfg.Predef = c27Predef
	s, err := clsim.Start(cfg, nil)
	if err != nil {
		r.Fail("harness", "%v", err)
		return
	}
	defer s.Shutdown()
	g := clsim.NewGateway()
	g.NextTopicID = 10 // stay clear of the predefined IDs
	if err := connect(s, g); err != nil {
		r.Fail("harness-connect", "%v", err)
		return
	}
	if c.Eager > 0 {
		s.SetEager(c.Eager - 1)
		r.Label("eager-gateway")
	}
	live := map[string]bool{}   // filters currently subscribed (by the client's own bookkeeping key)
	knows := map[string]bool{}  // names the client has an ID for
	dead := map[string]bool{}   // filters unsubscribed and not subscribed again
	msgID := uint16(100)
	subUnsub := func(op c27Op) bool {
		switch op.Op {
		case "sub":
			if op.Refused != 0 {
				g.SubackRC = op.Refused
				cs := s.Go(clsim.Call{API: "Subscribe", Topic: op.Filter, QoS: op.QoS})
				ok := s.WaitCall(cs, time.Minute)
				g.SubackRC = 0
				if !ok {
					r.Fail("harness-subscribe", "refused Subscribe(%q) did not return\n%s", op.Filter, s.Dump(20))
					return false
				}
				if cs.Err == nil {
					r.Fail("refused-subscribe-returns-nil", "Subscribe(%q) returned nil although the gateway refused it (return code %d)\n%s", op.Filter, op.Refused, s.Dump(20))
					return false
				}
				r.Label("subscription-refused")
				if !live[op.Filter] {
					dead[op.Filter] = true // not a current subscription: its callback must never run
				}
				return true
			}
			cs := s.Go(clsim.Call{API: "Subscribe", Topic: op.Filter, QoS: op.QoS})
			if !s.WaitCall(cs, time.Minute) || cs.Err != nil {
				r.Fail("harness-subscribe", "Subscribe(%q) -> returned=%v err=%v\n%s", op.Filter, cs.Returned, cs.Err, s.Dump(20))
				return false
			}
			live[op.Filter] = true
			delete(dead, op.Filter)
			if !strings.ContainsAny(op.Filter, "+#") && len(op.Filter) != 2 {
				knows[op.Filter] = true
			}
		case "unsub":
			cs := s.Go(clsim.Call{API: "Unsubscribe", Topic: op.Filter})
			if !s.WaitCall(cs, time.Minute) || cs.Err != nil {
				r.Fail("harness-unsubscribe", "Unsubscribe(%q) -> returned=%v err=%v\n%s", op.Filter, cs.Returned, cs.Err, s.Dump(20))
				return false
			}
			delete(live, op.Filter)
			dead[op.Filter] = true
		}
		return true
	}
	for i, op := range c.Ops {
		switch op.Op {
		case "sub", "unsub":
			if !subUnsub(op) {
				return
			}
		case "deliver":
			msgID++
			payload := []byte(fmt.Sprintf("d%d", i))
			p := snref.Pkt{Type: snref.PUBLISH, QoS: op.QoS, MsgID: msgID, Data: payload}
			switch op.Via {
			case "short":
				p.TIT, p.TopicID = snref.TITShort, snref.ShortID(op.Topic)
			case "predefined":
				p.TIT, p.TopicID = snref.TITPredefined, predefID(op.Topic)
			default:
				p.TIT = snref.TITNormal
				if !knows[op.Topic] {
					msgID++
					s.GatewaySend(snref.Pkt{Type: snref.REGISTER, TopicID: gwID(g, op.Topic), MsgID: msgID, TopicName: op.Topic}, false)
					s.Settle()
					knows[op.Topic] = true
				}
				p.TopicID = gwID(g, op.Topic)
			}
			before := len(s.Deliveries)
			s.GatewaySend(p, false)
			s.Settle()
			if op.QoS == 2 {
				if n := len(s.Deliveries) - before; n != 0 {
					r.Fail("qos2-callback-before-pubrel", "callback ran %d time(s) on the QoS 2 PUBLISH, before PUBREL\n%s", n, s.Dump(20))
					return
				}
				for _, b := range op.Between {
					if !subUnsub(b) {
						return
					}
					r.Label("subscription-changes-before-pubrel")
					r.NonTrivial = true
				}
				if n := len(s.Deliveries) - before; n != 0 {
					r.Fail("qos2-callback-before-pubrel", "callback ran %d time(s) before the PUBREL of the QoS 2 delivery\n%s", n, s.Dump(20))
					return
				}
				s.GatewaySend(snref.Pkt{Type: snref.PUBREL, MsgID: p.MsgID}, false)
				s.Settle()
			}
			ran := s.Deliveries[before:]
			var matching, all []string
			for f := range live {
				all = append(all, f)
				if mqttref.Match(f, op.Topic) {
					matching = append(matching, f)
				}
			}
			if len(live) >= 2 && len(matching) > 0 && len(matching) < len(live) || strings.Contains(op.Topic, "//") || strings.HasSuffix(op.Topic, "/") || strings.HasPrefix(op.Topic, "/") {
				r.NonTrivial = true
			}
			r.Label("via=" + op.Via, fmt.Sprintf("qos=%d", op.QoS))
			desc := fmt.Sprintf("topic %q (via %s, QoS %d), live filters %q, matching %q", op.Topic, op.Via, op.QoS, all, matching)
			if len(matching) == 0 {
				if len(ran) != 0 {
					r.Fail("callback-for-non-matching-filter", "%s: callback of %q ran\n%s", desc, ran[0].Filter, s.Dump(20))
					return
				}
				continue
			}
			if len(ran) != 1 {
				r.Fail(fmt.Sprintf("callbacks-run=%d", len(ran)), "%s: %d callbacks ran, expected exactly one\n%s", desc, len(ran), s.Dump(20))
				return
			}
			d := ran[0]
			switch {
			case dead[d.Filter]:
				r.Fail("callback-after-unsubscribe", "%s: callback of unsubscribed filter %q ran\n%s", desc, d.Filter, s.Dump(20))
			case !mqttref.Match(d.Filter, op.Topic):
				r.Fail("callback-for-non-matching-filter", "%s: callback of %q ran\n%s", desc, d.Filter, s.Dump(20))
			case d.Topic != op.Topic || string(d.Payload) != string(payload):
				r.Fail("callback-arguments", "%s: callback got topic %q payload %q", desc, d.Topic, d.Payload)
			}
			if len(r.Violations) > 0 {
				return
			}
		}
	}
	return
}

func gwID(g *clsim.Gateway, name string) uint16 {
	if id, ok := g.Names[name]; ok {
		return id
	}
	id := g.NextTopicID
	g.NextTopicID++
	g.Names[name] = id
	return id
}

func TestC27(t *testing.T) {
	vf.Check(t, vf.Prop[c27Case]{
		ID: "C27", Name: "dispatch-matching", Bubble: true, MarkCurrent: true,
		Rule: "real client against a cooperative scripted gateway; histories of 2-14 operations: Subscribe with filters of 0-3 levels over {a,b,empty,+} with optional trailing '#' (so '#', 'a/#', '+/+', '/', 'a//b', 'a/' occur) or plain names, each with its own recording callback, a fifth of them refused by the gateway (return codes 1-3: the filter is not a subscription then); Unsubscribe; deliveries of topics of 1-4 levels over {a,b,empty} at QoS 0/1 (on receipt) and QoS 2 (PUBLISH, PUBREC, PUBREL; in half of them 1-2 Subscribe/Unsubscribe calls complete between PUBREC and PUBREL, and the subscriptions current at the PUBREL decide) via registered IDs, 2-octet short names and predefined IDs. Every (filter, topic) pair with at most 2 levels is additionally enumerated with a single subscription. Non-trivial = a delivery with >= 2 live subscriptions of which some match and some do not, or a topic with an empty level; distinct by case.",
		Assumptions: []string{"'$'-topics and invalid filters are not generated; which of several matching callbacks runs is not constrained", "oracle: reference matcher written from MQTT 3.1.1 section 4.7"},
		Exhaustive: func(tier string, yield func(c27Case)) {
			lv := []string{"a", "b", "", "+"}
			var filters []string
			filters = append(filters, "#")
			for _, x := range lv {
				filters = append(filters, x, x+"/#")
				for _, y := range lv {
					filters = append(filters, x+"/"+y, x+"/"+y+"/#")
				}
			}
			tl := []string{"a", "b", ""}
			var tops []string
			for _, x := range tl {
				if x != "" {
					tops = append(tops, x)
				}
				for _, y := range tl {
					tops = append(tops, x+"/"+y)
				}
			}
			for _, f := range filters {
				if f == "" {
					continue
				}
				for _, tp := range tops {
					via := "registered"
					if len(tp) == 2 {
						via = "short"
					}
					yield(c27Case{Ops: []c27Op{{Op: "sub", Filter: f}, {Op: "deliver", Topic: tp, Via: via}}})
				}
			}
		},
		Gen: genC27,
		Run: runC27,
	})
}
