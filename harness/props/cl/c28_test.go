package cl

import (
	"fmt"
	"strings"
	"sync"
	"testing"
	"time"

	"pgregory.net/rapid"

	"verif/harness/clsim"
	"verif/harness/gwsim"
	"verif/harness/snref"
	"verif/harness/vf"
)

// ---- C28: client API calls always return and the client shuts down ------------------------------

type c28Op struct {
	Call   *clsim.Call `json:"call,omitempty"`
	Second *clsim.Call `json:"second,omitempty"` // started at the same instant as Call
	AdvMs  int         `json:"adv_ms,omitempty"`
	Inject string      `json:"inject,omitempty"` // gateway sends something unsolicited: disconnect, garbage, publish, register, pingresp, connack
}

type c28Case struct {
	// Eager > 0: the gateway answers from the link's write hook (the client's writer yields Eager-1 times there)
	Eager       int      `json:"eager,omitempty"`
	KeepAliveMs int      `json:"keepalive_ms"`
	Retries     uint     `json:"retries"`
	Behaviours  []string `json:"behaviours"` // how the gateway treats the client's 1st, 2nd, ... datagram; "ok" afterwards
	SilentFrom  int      `json:"silent_from"` // >= 0: the gateway goes silent for good from this datagram on
	Ops         []c28Op  `json:"ops"`
	EndWith     string   `json:"end_with"` // Close, gateway-disconnect, nothing
}

const (
	c28ConnectTimeoutMs = 3000
	c28RetryMs          = 1000
)

func genC28(t *rapid.T) c28Case {
	c := c28Case{KeepAliveMs: rapid.SampledFrom([]int{0, 0, 1000, 2000, 5000}).Draw(t, "keepalive"), Retries: uint(rapid.IntRange(0, 2).Draw(t, "retries")), SilentFrom: -1,
		Eager: rapid.SampledFrom([]int{0, 0, 0, 1, 2, 4, 11}).Draw(t, "eager")}
	nb := rapid.IntRange(0, 12).Draw(t, "nbehaviours")
	for i := 0; i < nb; i++ {
		c.Behaviours = append(c.Behaviours, rapid.SampledFrom([]string{"ok", "ok", "ok", "silent", "silent", "wrongtype", "wrongid", "unsolicited", "disconnect", "garbage", "dupack", "nagrec"}).Draw(t, "behaviour"))
	}
	if rapid.IntRange(0, 3).Draw(t, "goes_silent") == 0 {
		c.SilentFrom = rapid.IntRange(0, 10).Draw(t, "silent_from")
	}
	call := func() *clsim.Call {
		var cl clsim.Call
		switch rapid.SampledFrom([]string{"Register", "Subscribe", "Unsubscribe", "Publish", "Publish", "PublishPredefined", "Ping", "Sleep", "Disconnect", "Connect", "SubscribePredefined"}).Draw(t, "api") {
		case "Register":
			cl = clsim.Call{API: "Register", Topic: "t/r"}
		case "Subscribe":
			cl = clsim.Call{API: "Subscribe", Topic: rapid.SampledFrom([]string{"t/a", "t/#", "ab"}).Draw(t, "filter"), QoS: 1}
		case "SubscribePredefined":
			cl = clsim.Call{API: "SubscribePredefined", TopicID: 7, QoS: 1}
		case "Unsubscribe":
			cl = clsim.Call{API: "Unsubscribe", Topic: "t/a"}
		case "Publish":
			// (a short name, or the name which Register registers: unknown before that, the call fails at once)
			cl = clsim.Call{API: "Publish", Topic: rapid.SampledFrom([]string{"ab", "ab", "t/r"}).Draw(t, "ptopic"), QoS: uint8(rapid.IntRange(0, 3).Draw(t, "qos")), Payload: []byte("x")}
			if cl.Topic == "t/r" && cl.QoS == 3 {
				cl.QoS = 1
			}
		case "PublishPredefined":
			cl = clsim.Call{API: "PublishPredefined", TopicID: 7, QoS: uint8(rapid.IntRange(0, 2).Draw(t, "qos")), Payload: []byte("y")}
		case "Ping":
			cl = clsim.Call{API: "Ping"}
		case "Sleep":
			cl = clsim.Call{API: "Sleep", DurMs: rapid.SampledFrom([]int{1000, 3000, 10000}).Draw(t, "sleep_ms")}
		case "Disconnect":
			cl = clsim.Call{API: "Disconnect"}
		case "Connect":
			cl = clsim.Call{API: "Connect"}
		}
		return &cl
	}
	n := rapid.IntRange(1, 6).Draw(t, "n")
	for i := 0; i < n; i++ {
		switch k := rapid.IntRange(0, 9).Draw(t, "opkind"); {
		case k < 6:
			op := c28Op{Call: call()}
			if rapid.IntRange(0, 3).Draw(t, "concurrent") == 0 {
				op.Second = call()
				if op.Call.API == "Sleep" && op.Second.API == "Sleep" {
					// two Sleep() calls at once are not generated: the client keeps one sleep transaction
					// (stored by packet type), a second call replaces the first one's, and which of the
					// two a DISCONNECT of the gateway then belongs to is nobody's to say
					op.Second = &clsim.Call{API: "Ping"}
				}
			}
			c.Ops = append(c.Ops, op)
		case k < 8:
			c.Ops = append(c.Ops, c28Op{AdvMs: rapid.SampledFrom([]int{100, 1900, 2000, 2100, 5000, 5500}).Draw(t, "adv")})
		default:
			c.Ops = append(c.Ops, c28Op{Inject: rapid.SampledFrom([]string{"disconnect", "garbage", "publish", "register", "register-conflict", "register-conflict", "register-again", "pingresp", "connack", "suback"}).Draw(t, "inject")})
		}
	}
	c.EndWith = rapid.SampledFrom([]string{"Close", "Close", "gateway-disconnect", "nothing"}).Draw(t, "end")
	return c
}

// callBound gives the time within which an API call must return.
func callBound(cl clsim.Call, retries uint) time.Duration {
	r := time.Duration(retries + 1)
	d := c28RetryMs * time.Millisecond
	slack := 2 * time.Second // receive poll (1 s) and scheduling at equal instants
	switch cl.API {
	case "Connect":
		return r*c28ConnectTimeoutMs*time.Millisecond + slack
	case "Publish", "PublishPredefined":
		if cl.QoS == 2 {
			return 2*r*d + slack
		}
		return r*d + slack
	case "Sleep":
		return r*d + time.Duration(cl.DurMs)*time.Millisecond + time.Minute + slack
	}
	return r*d + slack
}

func runC28(c c28Case) (r vf.Result) {
	cfg := baseCfg()
	cfg.KeepAliveMs, cfg.RetryCount, cfg.RetryDelayMs, cfg.ConnectTimeoutMs = c.KeepAliveMs, c.Retries, c28RetryMs, c28ConnectTimeoutMs
	cfg.Predef = map[string]map[uint16]string{"*": {7: "p/seven"}}
	s, err := clsim.Start(cfg, nil)
	if err != nil {
		r.Fail("harness", "%v", err)
		return
	}
	g := clsim.NewGateway()
	g.NextTopicID = 10
	if err := connect(s, g); err != nil {
		r.Fail("harness-connect", "%v", err)
		s.Shutdown()
		return
	}
	if c.Eager > 0 {
		s.SetEager(c.Eager - 1)
		r.Label("eager-gateway")
	}
	nth := 0
	misbehaved := false
	gwDisconnected := false
	// A DISCONNECT from the gateway disconnects the client unless it can be taken for the reply
	// to a DISCONNECT the client has sent and that is still unanswered.
	gwDiscSent := 0
	noteGwDisconnect := func() {
		clientDisc := 0
		for _, e := range s.ClientDatagrams() {
			if e.SN != nil && e.SN.Type == snref.DISCONNECT {
				clientDisc++
			}
		}
		// while the client sleeps (Sleep call running, wake-up PINGREQ not sent yet) a DISCONNECT
		// may be a duplicate of the reply and is rightly ignored
		for _, cs := range s.Calls {
			if cs.Call.API == "Sleep" && !cs.Finished() {
				woke := false
				// (by position in the log, not by time: the wake-up PINGREQ of the previous
				// Sleep may carry the same virtual instant as the start of this one)
				for _, e := range s.ClientDatagramsSince(cs.StartSeq) {
					if e.SN != nil && e.SN.Type == snref.PINGREQ && len(e.SN.ClientID) > 0 {
						woke = true
					}
				}
				if !woke {
					return
				}
			}
		}
		if gwDiscSent+1 > clientDisc {
			gwDisconnected = true
		}
	}
	nagging := map[uint16]bool{}
	nagStop := make(chan struct{})
	var nagWG sync.WaitGroup
	defer func() { close(nagStop); nagWG.Wait() }()
	var respond func(p snref.Pkt) []snref.Pkt
	s.Respond = func(p snref.Pkt) []snref.Pkt {
		out := respond(p)
		for _, x := range out {
			if x.Type == snref.DISCONNECT {
				gwDiscSent++
			}
		}
		return out
	}
	respond = func(p snref.Pkt) []snref.Pkt {
		k := nth
		nth++
		if c.SilentFrom >= 0 && k >= c.SilentFrom {
			misbehaved = true
			return nil
		}
		b := "ok"
		if k < len(c.Behaviours) {
			b = c.Behaviours[k]
		}
		if b != "ok" {
			misbehaved = true
		}
		a := g.Answer(p)
		if nagging[p.MsgID] && p.Type == snref.PUBREL {
			return nil // the PUBCOMP never comes
		}
		switch b {
		case "nagrec":
			// a QoS 2 PUBLISH is answered with PUBREC, which the gateway then repeats every 300 ms for 12 s
			// (well inside every retry period); it never sends the PUBCOMP
			if p.Type == snref.PUBLISH && p.QoS == 2 {
				nagging[p.MsgID] = true
				rec := snref.Pkt{Type: snref.PUBREC, MsgID: p.MsgID}
				nagWG.Add(1)
				go func() {
					defer nagWG.Done()
					for i := 0; i < 40; i++ {
						tm := time.NewTimer(300 * time.Millisecond)
						select {
						case <-nagStop:
							tm.Stop()
							return
						case <-tm.C:
						}
						s.GatewaySend(rec, true)
					}
				}()
				return []snref.Pkt{rec}
			}
			return a
		case "silent":
			return nil
		case "wrongid":
			for i := range a {
				a[i].MsgID += 7
			}
			return a
		case "wrongtype":
			return []snref.Pkt{{Type: snref.UNSUBACK, MsgID: p.MsgID}, {Type: snref.PUBCOMP, MsgID: p.MsgID}, {Type: snref.REGACK, MsgID: p.MsgID, TopicID: 3}}
		case "unsolicited":
			return append([]snref.Pkt{{Type: snref.PINGRESP}, {Type: snref.REGISTER, TopicID: 99, MsgID: 900, TopicName: "un/sol"},
				{Type: snref.PUBLISH, TIT: snref.TITShort, TopicID: snref.ShortID("ab"), QoS: 1, MsgID: 901, Data: []byte("u")}}, a...)
		case "disconnect":
			noteGwDisconnect()
			return []snref.Pkt{{Type: snref.DISCONNECT, NoDuration: true}}
		case "dupack":
			return append(a, a...)
		case "garbage":
			s.GatewaySendRaw([]byte{0x02, 0xfe})
			return nil
		}
		return a
	}
	check := func(cs *clsim.CallState) bool {
		bound := callBound(cs.Call, c.Retries)
		if !s.WaitCall(cs, 10*bound) {
			r.Fail("call-never-returns/"+cs.Call.API, "%v has not returned after %v (bound %v); keep-alive %d ms\n%s", cs.Call, 10*bound, bound, c.KeepAliveMs, s.Dump(40))
			return false
		}
		if took := time.Duration(cs.EndNs - cs.StartNs); took > bound {
			r.Fail("call-returns-late/"+cs.Call.API, "%v returned after %v, bound %v (RetryCount %d, RetryDelay %v, ConnectTimeout %v)\n%s", cs.Call, took, bound, c.Retries, c28RetryMs*time.Millisecond, c28ConnectTimeoutMs*time.Millisecond, s.Dump(40))
			return false
		}
		return true
	}
	for _, op := range c.Ops {
		switch {
		case op.Call != nil:
			cs := s.Go(*op.Call)
			var cs2 *clsim.CallState
			if op.Second != nil {
				cs2 = s.Go(*op.Second)
				r.Label("concurrent-calls")
			}
			if !check(cs) || (cs2 != nil && !check(cs2)) {
				goto end
			}
		case op.AdvMs > 0:
			s.Advance(time.Duration(op.AdvMs) * time.Millisecond)
		default:
			misbehaved = true
			switch op.Inject {
			case "disconnect":
				noteGwDisconnect()
				gwDiscSent++
				s.GatewaySend(snref.Pkt{Type: snref.DISCONNECT, NoDuration: true}, false)
			case "garbage":
				s.GatewaySendRaw([]byte{0x01, 0x00})
			case "publish":
				s.GatewaySend(snref.Pkt{Type: snref.PUBLISH, TIT: snref.TITNormal, TopicID: 4242, QoS: 1, MsgID: 77, Data: []byte("z")}, false)
			case "register":
				s.GatewaySend(snref.Pkt{Type: snref.REGISTER, TopicID: 50, MsgID: 78, TopicName: "in/jected"}, false)
			case "register-conflict":
				// a name the client registers itself, under another topic ID
				s.GatewaySend(snref.Pkt{Type: snref.REGISTER, TopicID: 51, MsgID: 79, TopicName: "t/r"}, false)
			case "register-again":
				// ... or under the very ID the gateway handed out (the IDs start at 10)
				s.GatewaySend(snref.Pkt{Type: snref.REGISTER, TopicID: 10, MsgID: 80, TopicName: "t/r"}, false)
			case "pingresp":
				s.GatewaySend(snref.Pkt{Type: snref.PINGRESP}, false)
			case "connack":
				s.GatewaySend(snref.Pkt{Type: snref.CONNACK, RC: 0}, false)
			case "suback":
				s.GatewaySend(snref.Pkt{Type: snref.SUBACK, MsgID: 1, TopicID: 5}, false)
			}
			s.Settle()
		}
	}
	switch c.EndWith {
	case "Close":
		cs := s.Go(clsim.Call{API: "Close"})
		if !check(cs) {
			goto end
		}
		if cs.Err == nil {
			gwDisconnected = true // after a successful Close all goroutines must be gone
		}
	case "gateway-disconnect":
		noteGwDisconnect()
		gwDiscSent++
		s.GatewaySend(snref.Pkt{Type: snref.DISCONNECT, NoDuration: true}, false)
	}
	if gwDisconnected {
		time.Sleep(1100 * time.Millisecond)
		s.Settle()
		var left []string
		for _, g := range gwsim.Census() {
			if strings.Contains(g, "client.") {
				left = append(left, g)
			}
		}
		if len(left) > 0 {
			r.Fail("client-goroutine-survives", "client goroutines still alive 1.1 s after Close / the gateway's DISCONNECT: %v\n%s", left, s.Dump(30))
		}
	}
end:
	r.NonTrivial = misbehaved
	s.Shutdown()
	_ = fmt.Sprint
	return
}

func TestC28(t *testing.T) {
	vf.Check(t, vf.Prop[c28Case]{
		ID: "C28", Name: "calls-return", Bubble: true, DeadlockIsViolation: true, MarkCurrent: true,
		Rule: "real client (KeepAlive 0 / 1 s / 2 s / 5 s with RetryDelay 1 s, RetryCount 0-2) against an adversarial scripted gateway whose treatment of each successive client datagram is drawn (answer properly / stay silent / wrong message ID / wrong packet types / proper answer preceded by unsolicited PINGRESP+REGISTER+PUBLISH / DISCONNECT / undecodable datagram / duplicated answer / PUBREC repeated every 300 ms for 12 s with the PUBCOMP never sent), optionally silent for good from datagram k on; 1-6 operations: every API call (Connect, Register, Subscribe[Predefined], Unsubscribe, Publish[Predefined] QoS 0-3, Ping, Sleep, Disconnect), optionally two calls started at the same instant, time advances around the keep-alive ticks, unsolicited gateway packets (DISCONNECT, garbage, PUBLISH, REGISTER of a new name, REGISTER of the name the client registers itself under another or the same topic ID, PINGRESP, CONNACK, SUBACK); ended by Close, by a gateway DISCONNECT or not at all. Non-trivial = the gateway misbehaves at least once; concurrent calls are labelled; distinct by case.",
		Assumptions: []string{"two Sleep() calls are never started at the same instant (one sleep at a time is taken as the API's precondition: the sleep transaction is a singleton)", "bounds on the virtual clock: Connect (RetryCount+1) x ConnectTimeout; Register/Subscribe/Unsubscribe/Ping/Disconnect/Close and Publish QoS 1 (RetryCount+1) x RetryDelay; Publish QoS 2 twice that; Sleep adds the sleep duration and the library's fixed 1-minute PINGRESP wait; +2 s (1 s receive poll, same-instant scheduling)",
			"a hang is observed as 'not returned after 10 x the bound'; goroutines still blocked when the case ends are reported by the bubble itself"},
		Gen: genC28,
		Run: runC28,
	})
}
