package cl

import (
	"bytes"
	"testing"
	"time"

	"pgregory.net/rapid"

	"verif/harness/clsim"
	"verif/harness/snref"
	"verif/harness/vf"
)

// ---- C31 (b): the client sends AUTH right after every CONNECT, and never without a user ---------

type c31Case struct {
	User        string `json:"user"`
	Password    []byte `json:"password"`
	Will        bool   `json:"will"`
	Retries     uint   `json:"retries"`
	SilentFirst int    `json:"silent_first"` // the gateway ignores this many CONNECT datagrams
	Connects    int    `json:"connects"`     // Connect() is called this many times (again after a failure)
	Refuse      bool   `json:"refuse"`       // the gateway refuses (CONNACK congestion) instead of accepting
	Extra       bool   `json:"extra"`        // other API calls after connecting
}

func TestC31Client(t *testing.T) {
	vf.Check(t, vf.Prop[c31Case]{
		ID: "C31", Name: "client-auth-after-connect", Bubble: true,
		Rule: "real client configured with/without a user (incl. empty password, password with NUL-free arbitrary bytes), will on/off, RetryCount 0-3, a gateway that ignores the first 0..RetryCount+1 CONNECT datagrams and then accepts or refuses, Connect() called 1-2 times, optionally followed by Register/Subscribe/Publish/Ping/Sleep/Disconnect. Non-trivial = at least one retried CONNECT; distinct by case.",
		Assumptions: []string{"'right after' = the datagram that immediately follows each CONNECT datagram on the wire is the AUTH"},
		Gen: func(t *rapid.T) c31Case {
			c := c31Case{Will: rapid.Bool().Draw(t, "will"), Retries: uint(rapid.IntRange(0, 3).Draw(t, "retries")), Connects: rapid.IntRange(1, 2).Draw(t, "connects"),
				Refuse: rapid.IntRange(0, 4).Draw(t, "refuse") == 0, Extra: rapid.Bool().Draw(t, "extra")}
			if rapid.Bool().Draw(t, "hasuser") {
				c.User = rapid.SampledFrom([]string{"alice", "u", "user with space", "ünï"}).Draw(t, "user")
				c.Password = []byte(rapid.SampledFrom([]string{"secret", "", "p\xffw", "x"}).Draw(t, "password"))
			} else if rapid.Bool().Draw(t, "password_without_user") {
				c.Password = []byte("orphan")
			}
			c.SilentFirst = rapid.IntRange(0, int(c.Retries)+1).Draw(t, "silent_first")
			return c
		},
		Run: func(c c31Case) (r vf.Result) {
			cfg := baseCfg()
			cfg.User, cfg.Password, cfg.RetryCount, cfg.ConnectTimeoutMs = c.User, c.Password, c.Retries, 2000
			if c.Will {
				cfg.WillTopic, cfg.WillPayload = "w/t", []byte("bye")
			}
			s, err := clsim.Start(cfg, nil)
			if err != nil {
				r.Fail("harness", "%v", err)
				return
			}
			defer s.Shutdown()
			g := clsim.NewGateway()
			if c.Refuse {
				g.ConnackRC = 1
			}
			seenConnects := 0
			s.Respond = func(p snref.Pkt) []snref.Pkt {
				if p.Type == snref.CONNECT {
					seenConnects++
					if seenConnects <= c.SilentFirst {
						return nil
					}
				}
				if p.Type == snref.AUTH {
					return nil
				}
				return g.Answer(p)
			}
			connected := false
			for i := 0; i < c.Connects; i++ {
				cs := s.Go(clsim.Call{API: "Connect"})
				if !s.WaitCall(cs, time.Minute) {
					r.Fail("harness-connect-hangs", "%s", s.Dump(20))
					return
				}
				if cs.Err == nil {
					connected = true
					break
				}
			}
			if connected && c.Extra {
				for _, cl := range []clsim.Call{{API: "Register", Topic: "t/a"}, {API: "Subscribe", Topic: "t/#", QoS: 1}, {API: "Publish", Topic: "t/a", QoS: 1, Payload: []byte("x")},
					{API: "Ping"}, {API: "Sleep", DurMs: 1000}, {API: "Connect"}, {API: "Disconnect"}} {
					cs := s.Go(cl)
					s.WaitCall(cs, 2*time.Minute)
				}
			}
			dg := s.ClientDatagrams()
			nconn := 0
			for i, e := range dg {
				if e.SN == nil {
					continue
				}
				if e.SN.Type == snref.AUTH && c.User == "" {
					r.Fail("auth-sent-without-user", "client configured without a user sent %v\n%s", *e.SN, s.Dump(30))
					return
				}
				if e.SN.Type == snref.CONNECT {
					nconn++
					if c.User == "" {
						continue
					}
					if i+1 >= len(dg) || dg[i+1].SN == nil || dg[i+1].SN.Type != snref.AUTH {
						r.Fail("connect-not-followed-by-auth", "CONNECT #%d is not immediately followed by an AUTH\n%s", nconn, s.Dump(30))
						return
					}
					a := dg[i+1].SN
					if a.Method != "PLAIN" || !bytes.Equal(a.Data, snref.PlainAuth(c.User, c.Password)) {
						r.Fail("auth-credentials-differ", "AUTH after CONNECT #%d carries method %q data %q, configured user %q password %q", nconn, a.Method, a.Data, c.User, c.Password)
						return
					}
				}
			}
			r.NonTrivial = nconn >= 2
			if c.User != "" {
				r.Label("user-configured")
			} else {
				r.Label("no-user")
			}
			return
		},
	})
}
