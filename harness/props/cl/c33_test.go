package cl

import (
	"fmt"
	"sync"
	"testing"
	"time"

	"pgregory.net/rapid"

	"verif/harness/clsim"
	"verif/harness/snref"
	"verif/harness/vf"
)

// ---- C33: client keep-alive pings only while active -------------------------------------------

type c33Op struct {
	Call  *clsim.Call `json:"call,omitempty"`
	AdvNs int64       `json:"adv_ns,omitempty"`
	// Stray (Sleep calls): a late duplicate of an earlier PINGRESP (the gateway had answered a
	// retransmitted keep-alive PINGREQ too) arrives after the client's DISCONNECT and before the
	// gateway's answer to it.
	Stray bool `json:"stray,omitempty"`
}

type c33Case struct {
	// Eager > 0: the gateway answers from the link's write hook (the client's writer yields Eager-1 times there)
	Eager      int     `json:"eager,omitempty"`
	KeepAliveS int     `json:"keepalive_s"`
	Retries    uint    `json:"retries"`
	PingDrops  []int   `json:"ping_drops"` // for the 1st, 2nd, ... keep-alive ping: how many of its transmissions the gateway drops
	// for the 1st, 2nd, ... ping: how late the gateway's PINGRESP is (below RetryDelay, so that no
	// retransmission fills the gap)
	PingDelayMs []int `json:"ping_delay_ms,omitempty"`
	Ops        []c33Op `json:"ops"`
}

func genC33(t *rapid.T) c33Case {
	c := c33Case{KeepAliveS: rapid.SampledFrom([]int{2, 3, 5, 30}).Draw(t, "K"), Retries: uint(rapid.IntRange(1, 3).Draw(t, "retries")),
		Eager: rapid.SampledFrom([]int{0, 0, 0, 1, 2, 4, 11}).Draw(t, "eager")}
	for i := 0; i < 8; i++ {
		c.PingDrops = append(c.PingDrops, rapid.SampledFrom([]int{0, 0, 0, 1, int(c.Retries)}).Draw(t, "drops"))
	}
	if rapid.Bool().Draw(t, "slow_gateway") {
		for i := 0; i < 8; i++ {
			c.PingDelayMs = append(c.PingDelayMs, rapid.SampledFrom([]int{0, 0, 300, 600, 900, 999}).Draw(t, "delay_ms"))
		}
	}
	K := int64(c.KeepAliveS) * 1e9
	adv := func() c33Op {
		base := rapid.SampledFrom([]int64{K, K, 2 * K, K / 2, K / 4, 1e9, 3 * K}).Draw(t, "base")
		off := rapid.SampledFrom([]int64{0, 0, 1, -1, 1e6, -1e6, 5e8, 1e9 + 1}).Draw(t, "off")
		d := base + off
		if d < 1 {
			d = 1
		}
		return c33Op{AdvNs: d}
	}
	n := rapid.IntRange(2, 10).Draw(t, "n")
	active := true
	for i := 0; i < n; i++ {
		c.Ops = append(c.Ops, adv())
		var cl clsim.Call
		if active {
			switch rapid.IntRange(0, 7).Draw(t, "call") {
			case 0, 1:
				cl = clsim.Call{API: "Sleep", DurMs: rapid.SampledFrom([]int{1000, 1000, 2500, 7000}).Draw(t, "sleep_ms")}
				active = false
				if rapid.IntRange(0, 3).Draw(t, "stray_pingresp") == 0 {
					c.Ops = append(c.Ops, c33Op{Call: &cl, Stray: true})
					continue
				}
			case 2:
				// Disconnect ends the client (a new Dial would be needed): it is the last call
				cl = clsim.Call{API: "Disconnect"}
				c.Ops = append(c.Ops, c33Op{Call: &cl}, adv())
				return c
			case 3:
				cl = clsim.Call{API: "Publish", Topic: "ab", QoS: uint8(rapid.IntRange(0, 2).Draw(t, "qos")), Payload: []byte("k")}
			case 4:
				cl = clsim.Call{API: "Subscribe", Topic: "t/a", QoS: 1}
			case 6, 7:
				// the application's own Ping() next to the keep-alive pings (on the wire both are
				// PINGREQs without a client ID; the gateway drops their transmissions alike)
				cl = clsim.Call{API: "Ping"}
			default:
				cl = clsim.Call{API: "Register", Topic: fmt.Sprintf("t/%d", i)}
			}
		} else {
			if rapid.Bool().Draw(t, "stay") {
				continue
			}
			cl = clsim.Call{API: "Connect"}
			active = true
		}
		c.Ops = append(c.Ops, c33Op{Call: &cl})
	}
	c.Ops = append(c.Ops, adv())
	return c
}

func runC33(c c33Case) (r vf.Result) {
	cfg := baseCfg()
	cfg.KeepAliveMs, cfg.RetryCount, cfg.RetryDelayMs, cfg.ConnectTimeoutMs = c.KeepAliveS*1000, c.Retries, 1000, 3000
	s, err := clsim.Start(cfg, nil)
	if err != nil {
		r.Fail("harness", "%v", err)
		return
	}
	defer s.Shutdown()
	g := clsim.NewGateway()
	pingNo, dropsLeft := 0, 0
	dropped, delayed := false, false
	var late sync.WaitGroup
	defer late.Wait() // before the bubble's root returns
	stray := false
	s.Respond = func(p snref.Pkt) []snref.Pkt {
		if p.Type == snref.DISCONNECT && p.Duration > 0 && stray {
			stray = false
			return append([]snref.Pkt{{Type: snref.PINGRESP}}, g.Answer(p)...)
		}
		if p.Type == snref.PINGREQ && len(p.ClientID) == 0 {
			if dropsLeft == 0 { // a new ping
				if pingNo < len(c.PingDrops) {
					dropsLeft = c.PingDrops[pingNo] + 1
				} else {
					dropsLeft = 1
				}
				pingNo++
			}
			dropsLeft--
			if dropsLeft > 0 {
				dropped = true
				return nil
			}
			if i := pingNo - 1; i < len(c.PingDelayMs) && c.PingDelayMs[i] > 0 {
				d, ans := time.Duration(c.PingDelayMs[i])*time.Millisecond, g.Answer(p)
				delayed = true
				late.Add(1)
				go func() {
					defer late.Done()
					time.Sleep(d)
					for _, a := range ans {
						s.GatewaySend(a, true)
					}
				}()
				return nil
			}
			return g.Answer(p)
		}
		return g.Answer(p)
	}
	if c.Eager > 0 {
		s.SetEager(c.Eager - 1)
		r.Label("eager-gateway")
	}
	cs := s.Go(clsim.Call{API: "Connect"})
	if !s.WaitCall(cs, time.Minute) || cs.Err != nil {
		r.Fail("harness-connect", "%v", cs.Err)
		return
	}
	near := false
	for _, op := range c.Ops {
		if op.Call == nil {
			s.Advance(time.Duration(op.AdvNs))
			continue
		}
		// is a keep-alive exchange in flight or a tick close?
		dg := s.ClientDatagrams()
		if n := len(dg); n > 0 && dg[n-1].SN != nil && dg[n-1].SN.Type == snref.PINGREQ && s.Now()-dg[n-1].Ns <= 1e9 {
			near = true
		}
		stray = op.Stray
		if op.Stray {
			r.Label("stray-pingresp-during-sleep-handshake")
		}
		cs := s.Go(*op.Call)
		max := 5*time.Second*time.Duration(c.Retries+2) + time.Duration(op.Call.DurMs)*time.Millisecond + 70*time.Second
		if !s.WaitCall(cs, max) {
			r.Fail("call-never-returns/"+op.Call.API, "%v did not return within %v while keep-alive is running\n%s", *op.Call, max, s.Dump(40))
			return
		}
		if cs.Err != nil {
			r.Fail("call-fails-next-to-keepalive/"+op.Call.API, "%v returned %v although the gateway answers every request (keep-alive pings: %v dropped transmissions, all within the retry budget)\n%s", *op.Call, cs.Err, c.PingDrops, s.Dump(40))
			return
		}
	}
	r.NonTrivial = near || dropped || delayed
	if delayed {
		r.Label("pingresp-late")
	}
	if dropped {
		r.Label("ping-transmissions-dropped")
	}
	checkKeepalive(c, s, &r)
	return
}

// checkKeepalive replays the timeline against the client state model.
func checkKeepalive(c c33Case, s *clsim.Sim, r *vf.Result) {
	const (
		disconnected = iota
		active
		asleep
		awake
	)
	st := disconnected
	K := int64(c.KeepAliveS) * 1e9
	eps := int64(5e6)
	var since int64   // start of the current active period
	var pings []int64 // PINGREQ transmissions in it
	sleepPending := false
	end := s.Now()
	// "at least once per KeepAlive period": the periods are counted from the instant the client became
	// active; each complete period (T-K, T] must contain a PINGREQ transmission (a tick that finds a
	// ping of the application in flight joins it, so the datagram may be earlier than the tick, and
	// it is at most 5 ms late).
	gap := func(now int64, what string) {
		for T := since + K; T+eps <= now; T += K {
			ok := false
			for _, p := range pings {
				if p > T-K && p <= T+eps {
					ok = true
				}
			}
			if !ok {
				r.Fail("keepalive-gap", "client active since %.3f s: no PINGREQ in the keep-alive period (%.3f s, %.3f s] (KeepAlive %d s; PINGREQs of this active period at %v ns; judged up to %s at %.3f s)\n%s", float64(since)/1e9, float64(T-K)/1e9, float64(T)/1e9, c.KeepAliveS, pings, what, float64(now)/1e9, s.Dump(40))
				return
			}
		}
	}
	for _, e := range s.Events {
		switch {
		case e.Kind == "G>C" && e.SN != nil && e.SN.Type == snref.CONNACK && e.SN.RC == 0:
			if st != active {
				st, since, pings = active, e.Ns, nil
			}
		case e.Kind == "C>G" && e.SN != nil && e.SN.Type == snref.DISCONNECT:
			if st == active {
				gap(e.Ns, "the client's DISCONNECT")
			}
			if e.SN.Duration > 0 {
				sleepPending = true
			} else {
				st = disconnected
				since = e.Ns
			}
		case e.Kind == "G>C" && e.SN != nil && e.SN.Type == snref.DISCONNECT && sleepPending:
			sleepPending = false
			st = asleep
			since = e.Ns
		case e.Kind == "C>G" && e.SN != nil && e.SN.Type == snref.PINGREQ:
			if len(e.SN.ClientID) > 0 {
				if st == asleep {
					st = awake
				}
				continue
			}
			switch st {
			case active:
				pings = append(pings, e.Ns)
			case asleep:
				if e.Ns > since { // strictly after the client fell asleep
					r.Fail("keepalive-ping-while-asleep", "keep-alive PINGREQ (no client ID) sent at %.3f s although the client has been asleep since %.3f s\n%s", float64(e.Ns)/1e9, float64(since)/1e9, s.Dump(40))
				}
			case disconnected:
				if e.Ns <= since { // same instant as the DISCONNECT: the order is not fixed
					break
				}
				r.Fail("keepalive-ping-while-disconnected", "keep-alive PINGREQ sent at %.3f s although the client is disconnected\n%s", float64(e.Ns)/1e9, s.Dump(40))
			}
		}
		if len(r.Violations) > 0 {
			return
		}
	}
	if st == active {
		gap(end, "the end of the history")
	}
}

func TestC33(t *testing.T) {
	vf.Check(t, vf.Prop[c33Case]{
		ID: "C33", Name: "client-keepalive", Bubble: true, DeadlockIsViolation: true,
		Rule: "real client with KeepAlive 2/3/5/30 s (RetryDelay 1 s, RetryCount 1-3) against a scripted gateway that answers everything but drops 0..RetryCount transmissions of selected keep-alive pings and, in half of the cases, answers selected pings 300-999 ms late (below RetryDelay); 2-10 API calls (Sleep of 1-7 s - in a quarter of them a late duplicate PINGRESP arrives between the client's DISCONNECT and the gateway's answer -, Disconnect, Publish QoS 0-2, Subscribe, Register, Ping, reconnect) separated by time advances drawn relative to the keep-alive period (K, K/2, K/4, 2K, 3K, 1 s; exactly, +-1 ns, +-1 ms, +0.5 s). Non-trivial = an API call starts within 1 s after a keep-alive PINGREQ, or a ping transmission is dropped or answered late; distinct by case.",
		Assumptions: []string{"keep-alive PINGREQs carry no client ID, the wake-up PINGREQ carries it; Client.Ping() is called only while the client is active and has returned before the next call starts, so a PINGREQ without client ID seen while asleep or disconnected is a keep-alive ping (or a retransmission of one)", "\"once per KeepAlive period\" is read as: every complete period of KeepAlive length, counted from the instant the client became active, contains a PINGREQ datagram (first transmission or retransmission, keep-alive or Ping()), with 5 ms of tolerance at the end; a sliding window is not demanded (a tick that joins an application ping sent just before it sends nothing itself)", "the awake state (after Sleep returned, before reconnecting) is not judged"},
		Gen:         genC33,
		Run:         runC33,
	})
}
