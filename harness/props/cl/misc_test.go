package cl

import (
	"fmt"
	"testing"
	"time"

	"pgregory.net/rapid"

	"verif/harness/clsim"
	"verif/harness/sngen"
	"verif/harness/snref"
	"verif/harness/vf"
)

// ---- C06 (client side): exchanges started by each side never interfere --------------------------

type c06cOp struct {
	// Kind: "call" starts API call Call; "ack" lets the gateway answer the oldest unanswered
	// request of call #Ref; "gwpub2" opens a gateway QoS 2 delivery with message ID Mid;
	// "gwrel" sends the PUBREL of delivery #Ref.
	Kind string      `json:"kind"`
	Call *clsim.Call `json:"call,omitempty"`
	Ref  int         `json:"ref,omitempty"`
	Mid  uint16      `json:"mid,omitempty"`
}

type c06cCase struct {
	Ops []c06cOp `json:"ops"`
}

func genC06Client(t *rapid.T) c06cCase {
	var c c06cCase
	ncalls, ndeliv := 0, 0
	var openCalls, openDeliv []int
	stepsLeft := map[int]int{}
	n := rapid.IntRange(3, 12).Draw(t, "n")
	for i := 0; i < n || len(openCalls) > 0 || len(openDeliv) > 0; i++ {
		var kinds []string
		if i < n {
			kinds = append(kinds, "call", "gwpub2")
		}
		if len(openCalls) > 0 {
			kinds = append(kinds, "ack", "ack")
		}
		if len(openDeliv) > 0 {
			kinds = append(kinds, "gwrel")
		}
		switch rapid.SampledFrom(kinds).Draw(t, "kind") {
		case "call":
			var cl clsim.Call
			steps := 1
			switch rapid.IntRange(0, 4).Draw(t, "api") {
			case 0:
				cl = clsim.Call{API: "Publish", Topic: "ab", QoS: 1, Payload: []byte("c")}
			case 1:
				cl = clsim.Call{API: "Publish", Topic: "ab", QoS: 2, Payload: []byte("c")}
				steps = 2
			case 2:
				cl = clsim.Call{API: "Subscribe", Topic: fmt.Sprintf("s/%d", ncalls), QoS: 1}
			case 3:
				cl = clsim.Call{API: "Register", Topic: fmt.Sprintf("r/%d", ncalls)}
			default:
				cl = clsim.Call{API: "Unsubscribe", Topic: "s/0"}
			}
			c.Ops = append(c.Ops, c06cOp{Kind: "call", Call: &cl})
			stepsLeft[ncalls] = steps
			openCalls = append(openCalls, ncalls)
			ncalls++
		case "ack":
			k := rapid.IntRange(0, len(openCalls)-1).Draw(t, "which")
			ref := openCalls[k]
			c.Ops = append(c.Ops, c06cOp{Kind: "ack", Ref: ref})
			stepsLeft[ref]--
			if stepsLeft[ref] == 0 {
				openCalls = append(openCalls[:k], openCalls[k+1:]...)
			}
		case "gwpub2":
			// the client's own message IDs run 1,2,3,...: pick gateway IDs in the same region
			mid := uint16(rapid.IntRange(1, 6).Draw(t, "mid"))
			dup := false
			for _, o := range c.Ops {
				if o.Kind == "gwpub2" && o.Mid == mid {
					dup = true // the gateway never reuses an ID of its own
				}
			}
			if dup {
				continue
			}
			c.Ops = append(c.Ops, c06cOp{Kind: "gwpub2", Mid: mid})
			openDeliv = append(openDeliv, ndeliv)
			ndeliv++
		case "gwrel":
			k := rapid.IntRange(0, len(openDeliv)-1).Draw(t, "whichd")
			c.Ops = append(c.Ops, c06cOp{Kind: "gwrel", Ref: openDeliv[k]})
			openDeliv = append(openDeliv[:k], openDeliv[k+1:]...)
		}
	}
	return c
}

func runC06Client(c c06cCase) (r vf.Result) {
	cfg := baseCfg()
	cfg.RetryDelayMs, cfg.RetryCount = 10000, 2
	s, err := clsim.Start(cfg, nil)
	if err != nil {
		r.Fail("harness", "%v", err)
		return
	}
	defer s.Shutdown()
	g := clsim.NewGateway()
	g.NextTopicID = 10
	if err := connect(s, g); err != nil {
		r.Fail("harness-connect", "%v", err)
		return
	}
	// subscribe to everything so that deliveries run a callback
	cs := s.Go(clsim.Call{API: "Subscribe", Topic: "#", QoS: 2})
	s.WaitCall(cs, time.Minute)
	// from now on the gateway answers only when the script says so
	type pending struct{ reqs []snref.Pkt }
	var calls []*clsim.CallState
	var queue []snref.Pkt // client requests not answered yet, in order
	owner := map[uint16]int{}
	var pubcomps, pubrecs []uint16
	s.Respond = func(p snref.Pkt) []snref.Pkt {
		switch p.Type {
		case snref.PUBLISH, snref.SUBSCRIBE, snref.REGISTER, snref.UNSUBSCRIBE, snref.PUBREL:
			queue = append(queue, p)
		case snref.PUBCOMP:
			pubcomps = append(pubcomps, p.MsgID)
		case snref.PUBREC:
			pubrecs = append(pubrecs, p.MsgID)
		}
		return nil
	}
	var delivMids []uint16
	openMids := map[uint16]bool{} // gateway deliveries in progress
	for _, op := range c.Ops {
		switch op.Kind {
		case "call":
			before := len(queue)
			cs := s.Go(*op.Call)
			s.Settle()
			calls = append(calls, cs)
			if len(queue) > before {
				mid := queue[len(queue)-1].MsgID
				owner[mid] = len(calls) - 1
				if openMids[mid] {
					r.NonTrivial = true
				}
			}
		case "ack":
			// answer the oldest queued request that belongs to call #Ref
			for i, q := range queue {
				if owner[q.MsgID] == op.Ref {
					queue = append(queue[:i], queue[i+1:]...)
					for _, a := range g.Answer(q) {
						s.GatewaySend(a, false)
					}
					break
				}
			}
			s.Settle()
		case "gwpub2":
			delivMids = append(delivMids, op.Mid)
			openMids[op.Mid] = true
			for _, q := range queue {
				if q.MsgID == op.Mid {
					r.NonTrivial = true
				}
			}
			s.GatewaySend(snref.Pkt{Type: snref.PUBLISH, TIT: snref.TITShort, TopicID: snref.ShortID("ab"), QoS: 2, MsgID: op.Mid, Data: []byte(fmt.Sprintf("g%d", len(delivMids)-1))}, false)
			s.Settle()
		case "gwrel":
			mid := delivMids[op.Ref]
			s.GatewaySend(snref.Pkt{Type: snref.PUBREL, MsgID: mid}, false)
			s.Settle()
			delete(openMids, mid)
		}
	}
	s.Settle()
	for i, cs := range calls {
		if !cs.Returned {
			r.Fail("exchange-broken/client-initiated/"+cs.Call.API, "call #%d %v was acknowledged by the gateway but has not returned (a gateway exchange with the same message ID was open)\n%s", i, cs.Call, s.Dump(40))
			return
		}
		if cs.Err != nil {
			r.Fail("exchange-broken/client-initiated/"+cs.Call.API, "call #%d %v returned %v\n%s", i, cs.Call, cs.Err, s.Dump(40))
			return
		}
	}
	for i, mid := range delivMids {
		tag := fmt.Sprintf("g%d", i)
		n := 0
		for _, d := range s.Deliveries {
			if string(d.Payload) == tag {
				n++
			}
		}
		nrec, ncomp := 0, 0
		for _, m := range pubrecs {
			if m == mid {
				nrec++
			}
		}
		for _, m := range pubcomps {
			if m == mid {
				ncomp++
			}
		}
		if n != 1 || nrec < 1 || ncomp < 1 {
			r.Fail("exchange-broken/gateway-initiated/qos2-delivery", "gateway QoS 2 delivery with message ID %d: callback ran %d time(s), %d PUBREC, %d PUBCOMP (expected 1, >=1, >=1)\n%s", mid, n, nrec, ncomp, s.Dump(40))
			return
		}
	}
	return
}

func TestC06Client(t *testing.T) {
	vf.Check(t, vf.Prop[c06cCase]{
		ID: "C06", Name: "client-exchanges-independent", Bubble: true,
		Rule: "real client; 3-12 operations: API calls left open (Publish QoS 1, Publish QoS 2, Subscribe, Register, Unsubscribe; the client numbers its message IDs 1,2,3,...), gateway QoS 2 deliveries with message IDs 1-6, and, in a drawn order, the gateway's acknowledgement of each open call and the PUBREL of each open delivery; lossless link, no time passes. Non-trivial = a call and a gateway delivery with the same message ID are open at the same time; distinct by case.",
		Assumptions: []string{"the gateway never reuses one of its own message IDs within a case"},
		Gen:         genC06Client,
		Run:         runC06Client,
	})
}

// ---- C23 (client side): every datagram the client sends is well-formed --------------------------

type c23cCase struct {
	User  string       `json:"user,omitempty"`
	Will  bool         `json:"will"`
	Calls []clsim.Call `json:"calls"`
}

func genC23Client(t *rapid.T) c23cCase {
	c := c23cCase{Will: rapid.Bool().Draw(t, "will")}
	if rapid.Bool().Draw(t, "user") {
		c.User = "alice"
	}
	n := rapid.IntRange(1, 10).Draw(t, "n")
	plen := func() []byte {
		n := rapid.OneOf(rapid.SampledFrom([]int{0, 1, 246, 247, 248, 249, 250, 7168, 7169, 8182, 8183, 8184, 8185, 8192, 9000, 65530, 65531, 66000}), rapid.IntRange(0, 300)).Draw(t, "plen")
		return vf.Payload{N: n, Fill: 7}.Bytes()
	}
	longName := func() string {
		n := rapid.SampledFrom([]int{3, 10, 248, 249, 250, 251, 252, 1000, 8183, 8186, 8187, 8200, 65535}).Draw(t, "namelen")
		b := make([]byte, n)
		for i := range b {
			b[i] = 'a' + byte(i%26)
		}
		b[1] = '/'
		return string(b)
	}
	for i := 0; i < n; i++ {
		switch rapid.IntRange(0, 9).Draw(t, "api") {
		case 0:
			c.Calls = append(c.Calls, clsim.Call{API: "Register", Topic: longName()})
		case 1:
			c.Calls = append(c.Calls, clsim.Call{API: "Subscribe", Topic: rapid.SampledFrom([]string{"t/a", "t/#", "ab", "+/+"}).Draw(t, "filter"), QoS: uint8(rapid.IntRange(0, 2).Draw(t, "qos"))})
		case 2:
			c.Calls = append(c.Calls, clsim.Call{API: "Subscribe", Topic: longName(), QoS: 1})
		case 3:
			c.Calls = append(c.Calls, clsim.Call{API: "SubscribePredefined", TopicID: uint16(rapid.SampledFrom([]int{7, 0xfffe}).Draw(t, "pid")), QoS: 1})
		case 4:
			c.Calls = append(c.Calls, clsim.Call{API: "Unsubscribe", Topic: rapid.SampledFrom([]string{"t/a", "ab", "t/#"}).Draw(t, "filter")})
		case 5, 6:
			c.Calls = append(c.Calls, clsim.Call{API: "Publish", Topic: "ab", QoS: uint8(rapid.IntRange(0, 3).Draw(t, "qos")), Retain: rapid.Bool().Draw(t, "retain"), Payload: plen()})
		case 7:
			c.Calls = append(c.Calls, clsim.Call{API: "PublishPredefined", TopicID: 7, QoS: uint8(rapid.IntRange(0, 3).Draw(t, "qos")), Payload: plen()})
		case 8:
			c.Calls = append(c.Calls, clsim.Call{API: "Ping"})
		default:
			dur := rapid.SampledFrom([]int{1000, 2000, 3000}).Draw(t, "sleep_ms")
			if rapid.IntRange(0, 24).Draw(t, "longsleep") == 0 {
				// the duration field is 16 bits wide (every second of sleep costs one receive poll, so this is kept rare)
				dur = rapid.SampledFrom([]int{65535000, 70000000}).Draw(t, "long_sleep_ms")
			}
			c.Calls = append(c.Calls, clsim.Call{API: "Sleep", DurMs: dur})
			c.Calls = append(c.Calls, clsim.Call{API: "Connect"})
		}
	}
	c.Calls = append(c.Calls, clsim.Call{API: rapid.SampledFrom([]string{"Disconnect", "Close"}).Draw(t, "end")})
	return c
}

func TestC23Client(t *testing.T) {
	vf.Check(t, vf.Prop[c23cCase]{
		ID: "C23", Name: "client-datagrams-wellformed", Bubble: true,
		Rule: "real client (with/without user, with/without will) driven through 1-10 API calls over all calls and topic forms: Register/Subscribe with names of 3-1000 octets (around the 255/256 length switch) and of 8183-65535 octets (which cannot fit a datagram: the call must fail without sending), Subscribe to wildcard, short and predefined topics, Publish and PublishPredefined at QoS 0-3 with payloads 0..66000 octets (around MaxPayloadLength, the 8192 transport maximum and the uint16 wrap), Ping, Sleep (incl. durations beyond 65535 s) followed by reconnect, Disconnect/Close, against a cooperative scripted gateway that also delivers messages and REGISTERs. Non-trivial = a case with a payload or name beyond 250 octets, or a sleep; distinct by case.",
		Assumptions: []string{"well-formed = decodes with the reference decoder, its type is one a client sends (spec 5.4), its length field equals its size and the one-octet form is used iff size <= 255, size <= 8192"},
		Gen:         genC23Client,
		Run: func(c c23cCase) (r vf.Result) {
			cfg := baseCfg()
			cfg.User, cfg.Password = c.User, []byte("pw")
			cfg.RetryDelayMs, cfg.RetryCount = 1000, 1
			cfg.Predef = map[string]map[uint16]string{"*": {7: "p/seven", 0xfffe: "p/last"}}
			if c.Will {
				cfg.WillTopic, cfg.WillPayload, cfg.WillQoS, cfg.WillRetained = "w/t", []byte("bye"), 1, true
			}
			s, err := clsim.Start(cfg, nil)
			if err != nil {
				r.Fail("harness", "%v", err)
				return
			}
			defer s.Shutdown()
			g := clsim.NewGateway()
			g.NextTopicID = 10
			if err := connect(s, g); err != nil {
				r.Fail("harness-connect", "%v\n%s", err, s.Dump(20))
				return
			}
			// some gateway-initiated traffic so that the client's replies are exercised too
			s.GatewaySend(snref.Pkt{Type: snref.REGISTER, TopicID: 40, MsgID: 400, TopicName: "gw/reg"}, false)
			s.GatewaySend(snref.Pkt{Type: snref.PUBLISH, TIT: snref.TITNormal, TopicID: 40, QoS: 1, MsgID: 401, Data: []byte("q1")}, false)
			s.GatewaySend(snref.Pkt{Type: snref.PUBLISH, TIT: snref.TITShort, TopicID: snref.ShortID("ab"), QoS: 2, MsgID: 402, Data: []byte("q2")}, false)
			s.Settle()
			s.GatewaySend(snref.Pkt{Type: snref.PUBREL, MsgID: 402}, false)
			s.Settle()
			for _, cl := range c.Calls {
				if len(cl.Payload) > 250 || len(cl.Topic) > 250 || cl.API == "Sleep" {
					r.NonTrivial = true
				}
				r.Label("api=" + cl.API)
				cs := s.Go(cl)
				s.WaitCall(cs, time.Duration(cl.DurMs)*time.Millisecond+3*time.Minute)
			}
			for _, e := range s.ClientDatagrams() {
				b := e.Raw
				if e.SN != nil {
					b = nil
				}
				_ = b
			}
			for _, rec := range s.Link.All() {
				b := rec.Data
				if len(b) > 8192 {
					r.Fail("client-datagram-oversize/"+sizeClass(len(b)), "client sent a datagram of %d octets (transport maximum 8192): % x...\n%s", len(b), b[:12], s.Dump(20))
					continue
				}
				p, _, err := snref.Decode(b, true)
				if err != nil {
					tn := "?"
					if h, herr := snref.ParseHeader(b); herr == nil {
						tn = snref.TypeName(h.Type)
					}
					r.Fail("client-datagram-malformed/type="+tn, "client sent % x: %v\n%s", head48(b), err, s.Dump(20))
					continue
				}
				if !snref.ClientMaySend(p.Type) {
					r.Fail("client-datagram-wrong-direction/"+snref.TypeName(p.Type), "client sent a %s\n%s", snref.TypeName(p.Type), s.Dump(20))
				}
			}
			return
		},
	})
}

func sizeClass(n int) string {
	if n > 65535 {
		return "over-65535"
	}
	return "8193-65535"
}

func head48(b []byte) []byte {
	if len(b) > 48 {
		return b[:48]
	}
	return b
}

// ---- C25 (client front): no packet sequence from a gateway crashes the client ---------------------

type c25cOp struct {
	Call   *clsim.Call `json:"call,omitempty"`
	SN     *snref.Pkt  `json:"sn,omitempty"`
	AdvMs  int         `json:"adv_ms,omitempty"`
	NoWait bool        `json:"nowait,omitempty"`
	// Ack: for once the gateway answers the client's most recent datagram properly (so that
	// subscriptions and registrations really come into being and later packets meet them)
	Ack bool `json:"ack,omitempty"`
}

type c25cCase struct {
	// Eager > 0: the gateway's proper answers (steps "ack") and nothing else are unaffected; packets of
	// the script are injected as before, but the client's writes are observed from the write hook (the
	// writer yields Eager-1 times there), which changes how its goroutines interleave
	Eager       int      `json:"eager,omitempty"`
	KeepAliveMs int      `json:"keepalive_ms"`
	Steps       []c25cOp `json:"steps"`
}

func genC25Client(t *rapid.T) c25cCase {
	c := c25cCase{KeepAliveMs: rapid.SampledFrom([]int{0, 0, 1000}).Draw(t, "keepalive"), Eager: rapid.SampledFrom([]int{0, 0, 0, 1, 4, 11}).Draw(t, "eager")}
	n := rapid.IntRange(1, 40).Draw(t, "n")
	for i := 0; i < n; i++ {
		switch k := rapid.IntRange(0, 9).Draw(t, "kind"); {
		case k == 0:
			c.Steps = append(c.Steps, c25cOp{AdvMs: rapid.SampledFrom([]int{1, 100, 1000, 1100, 61000}).Draw(t, "adv")})
		case k == 6 || k == 7:
			c.Steps = append(c.Steps, c25cOp{Ack: true})
		case k < 3:
			var cl clsim.Call
			switch rapid.IntRange(0, 8).Draw(t, "api") {
			case 0:
				cl = clsim.Call{API: "Register", Topic: "t/r"}
			case 1:
				cl = clsim.Call{API: "Subscribe", Topic: rapid.SampledFrom([]string{"t/a", "#", "ab", "ab/c", "ab/+", "p/seven/x", "+/+/+", "t/r/more"}).Draw(t, "filter"), QoS: 1}
			case 2:
				cl = clsim.Call{API: "Publish", Topic: "ab", QoS: uint8(rapid.IntRange(0, 3).Draw(t, "qos")), Payload: []byte("x")}
			case 3:
				cl = clsim.Call{API: "SubscribePredefined", TopicID: uint16(rapid.SampledFrom([]int{7, 8}).Draw(t, "pid")), QoS: 1}
			case 4:
				cl = clsim.Call{API: "Unsubscribe", Topic: "t/a"}
			case 5:
				cl = clsim.Call{API: "Sleep", DurMs: 1000}
			case 6:
				cl = clsim.Call{API: "Ping"}
			case 7:
				cl = clsim.Call{API: "Connect"}
			default:
				cl = clsim.Call{API: "Disconnect"}
			}
			c.Steps = append(c.Steps, c25cOp{Call: &cl})
		case k == 3:
			// fragments of a QoS 2 delivery which share one message ID: PUBLISH copies with drawn DUP
			// flags (the first copy may have been lost, so the first one seen may carry DUP=1), PUBRELs
			mid := uint16(rapid.SampledFrom([]int{1, 2, 3, 0xffff}).Draw(t, "fmid"))
			np := rapid.IntRange(0, 2).Draw(t, "fpublishes")
			for j := 0; j < np; j++ {
				p := snref.Pkt{Type: snref.PUBLISH, TIT: snref.TITShort, TopicID: snref.ShortID("ab"), QoS: 2, MsgID: mid, Data: []byte("q2"), DUP: rapid.Bool().Draw(t, "fdup")}
				if rapid.IntRange(0, 3).Draw(t, "fregistered") == 0 {
					p.TIT, p.TopicID = snref.TITNormal, uint16(rapid.SampledFrom([]int{1, 10, 0xffff}).Draw(t, "ftid"))
				}
				c.Steps = append(c.Steps, c25cOp{SN: &p, NoWait: rapid.IntRange(0, 3).Draw(t, "nowait") == 0})
			}
			for j := rapid.IntRange(1, 2).Draw(t, "fpubrels"); j > 0; j-- {
				c.Steps = append(c.Steps, c25cOp{SN: &snref.Pkt{Type: snref.PUBREL, MsgID: mid}, NoWait: rapid.IntRange(0, 3).Draw(t, "nowait") == 0})
			}
		case k == 5 && rapid.Bool().Draw(t, "termination_burst"):
			// the client is being terminated (DISCONNECT from the gateway) at the very instant at which
			// several API calls start, Sleep among them: nothing settles in between
			first := rapid.Bool().Draw(t, "disconnect_first")
			disc := c25cOp{SN: &snref.Pkt{Type: snref.DISCONNECT, NoDuration: true}, NoWait: true}
			if first {
				c.Steps = append(c.Steps, disc)
			}
			for j := rapid.IntRange(2, 6).Draw(t, "ncalls"); j > 0; j-- {
				var cl clsim.Call
				switch rapid.IntRange(0, 4).Draw(t, "bapi") {
				case 0, 1:
					cl = clsim.Call{API: "Sleep", DurMs: 1000}
				case 2:
					cl = clsim.Call{API: "Publish", Topic: "ab", QoS: 1, Payload: []byte("x")}
				case 3:
					cl = clsim.Call{API: "Ping"}
				default:
					cl = clsim.Call{API: "Disconnect"}
				}
				c.Steps = append(c.Steps, c25cOp{Call: &cl, NoWait: true})
			}
			if !first {
				c.Steps = append(c.Steps, disc)
			}
		case k == 4 && len(c.Steps) > 0:
			// a duplicated datagram: one of the gateway's earlier packets again
			prev := c.Steps[rapid.IntRange(0, len(c.Steps)-1).Draw(t, "dupof")]
			if prev.SN == nil {
				continue
			}
			c.Steps = append(c.Steps, c25cOp{SN: prev.SN, NoWait: prev.NoWait})
		default:
			p := sngen.LegalPkt(t, sngen.AnyType().Draw(t, "type"))
			if len(p.Data) > 300 {
				p.Data = p.Data[:300]
			}
			if len(p.TopicName) > 300 {
				p.TopicName = p.TopicName[:300]
			}
			if rapid.Bool().Draw(t, "smallids") {
				p.MsgID = uint16(rapid.SampledFrom([]int{0, 1, 2, 3, 4, 0xffff}).Draw(t, "mid"))
				p.TopicID = uint16(rapid.SampledFrom([]int{0, 1, 7, 8, 10, 0x6162, 0xffff}).Draw(t, "tid"))
			}
			if (p.Type == snref.PUBLISH) && rapid.IntRange(0, 9).Draw(t, "tit3") == 0 {
				p.TIT = 3
			}
			c.Steps = append(c.Steps, c25cOp{SN: &p, NoWait: rapid.IntRange(0, 3).Draw(t, "nowait") == 0})
		}
	}
	return c
}

func TestC25Gateway(t *testing.T) {
	vf.Check(t, vf.Prop[c25cCase]{
		ID: "C25", Name: "hostile-gateway-to-client", Bubble: true, MarkCurrent: true,
		Rule: "real client (with and without keep-alive) against a hostile gateway: 1-40 steps mixing decodable packets of all 28 types with generated fields (message and topic IDs from small pools so that they hit the client's own exchanges, reserved topic-ID type), fragments of QoS 2 deliveries sharing one message ID (PUBLISH copies with drawn DUP flags, repeated PUBRELs, in any completeness), duplicated datagrams, now and then a proper answer to the client's latest request (so that subscriptions and registrations exist when the next packets arrive), bursts of 2-6 API calls (Sleep among them) started at the very instant the gateway's DISCONNECT terminates the client, API calls started and left in flight (Register, Subscribe - also to filters which have more levels than the topics the gateway then publishes on -, SubscribePredefined, Publish QoS 0-3, Unsubscribe, Sleep, Ping, Connect, Disconnect) and time advances across retry, keep-alive and the 1-minute sleep wait. Non-trivial = at least one gateway packet arrives while an API call is in flight; distinct by case.",
		Assumptions: []string{"oracle: the test process survives (client goroutines have no recover); goroutines blocked for ever are C28's subject and are tolerated here"},
		Gen:         genC25Client,
		Run: func(c c25cCase) (r vf.Result) {
			cfg := baseCfg()
			cfg.KeepAliveMs, cfg.RetryDelayMs, cfg.RetryCount, cfg.ConnectTimeoutMs = c.KeepAliveMs, 1000, 1, 2000
			cfg.Predef = map[string]map[uint16]string{"*": {7: "p/seven"}}
			s, err := clsim.Start(cfg, nil)
			if err != nil {
				r.Fail("harness", "%v", err)
				return
			}
			g := clsim.NewGateway()
			if err := connect(s, g); err != nil {
				r.Fail("harness-connect", "%v", err)
				s.Shutdown()
				return
			}
			s.Respond = nil // from now on only the script talks
			if c.Eager > 0 {
				s.SetEager(c.Eager - 1)
			}
			var inflight []*clsim.CallState
			for _, st := range c.Steps {
				switch {
				case st.Call != nil:
					inflight = append(inflight, s.Go(*st.Call))
					if !st.NoWait {
						s.Settle()
					}
				case st.Ack:
					if dg := s.ClientDatagrams(); len(dg) > 0 && dg[len(dg)-1].SN != nil {
						for _, a := range g.Answer(*dg[len(dg)-1].SN) {
							s.GatewaySend(a, false)
						}
						s.Settle()
						r.Label("proper-answer")
					}
				case st.SN != nil:
					for _, cs := range inflight {
						if !cs.Returned {
							r.NonTrivial = true
						}
					}
					s.GatewaySend(*st.SN, false)
					if !st.NoWait {
						s.Settle()
					}
				default:
					s.Advance(time.Duration(st.AdvMs) * time.Millisecond)
				}
			}
			s.Settle()
			s.Shutdown()
			// let calls that are still blocked run into their timeouts so that the bubble can end
			time.Sleep(5 * time.Minute)
			return
		},
	})
}
