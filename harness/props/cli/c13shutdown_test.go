package cli

import (
	"fmt"
	"io"
	"net"
	"strings"
	"sync"
	"syscall"
	"testing"
	"time"

	"pgregory.net/rapid"

	"verif/harness/mqttref"
	"verif/harness/snref"
	"verif/harness/vf"
)

// ---- C13, process level: stopping the gateway ------------------------------------------------------
//
// "After gateway shutdown ... the client receives a DISCONNECT exactly when it was active or awake."
// The session-level parts end a session by cancelling its context; this part ends the real process
// the way an operator does (SIGTERM / SIGINT) and looks at what its clients have received once the
// process is gone - after that nothing more can come, so no time limit has to be guessed.

type c13sCase struct {
	States  []string `json:"states"` // per client: active, asleep
	Signal  string   `json:"signal"` // TERM, INT
	PauseMs int      `json:"pause_ms"`
}

func TestC13Shutdown(t *testing.T) {
	vf.Check(t, vf.Prop[c13sCase]{
		ID: "C13", Name: "process-shutdown",
		Rule: "the real bisquitt binary on loopback with a conforming fake broker; 1-8 connected clients (active, or asleep after DISCONNECT(60)); after 0-150 ms the process gets SIGTERM or SIGINT; once it has exited the clients' sockets are drained. Every case is non-trivial; distinct by case.",
		Assumptions: []string{"oracle: the process exits; every active client has received exactly one DISCONNECT, every sleeping client none; set-up failures and a process which does not exit within 15 s are skipped and counted (more than half skipped = inconclusive), never a violation"},
		Gen: func(t *rapid.T) c13sCase {
			c := c13sCase{Signal: rapid.SampledFrom([]string{"TERM", "TERM", "INT"}).Draw(t, "signal"), PauseMs: rapid.SampledFrom([]int{0, 20, 150}).Draw(t, "pause")}
			for i := rapid.IntRange(1, 8).Draw(t, "n"); i > 0; i-- {
				c.States = append(c.States, rapid.SampledFrom([]string{"active", "active", "active", "asleep"}).Draw(t, "state"))
			}
			return c
		},
		Run: runC13Shutdown,
	})
}

func runC13Shutdown(c c13sCase) (r vf.Result) {
	r.NonTrivial = true
	bl, err := net.Listen("tcp", "127.0.0.1:0")
	if err != nil {
		r.Skip = true
		return
	}
	defer bl.Close()
	// the broker: accepts every connection, answers CONNECT and PINGREQ, reads on
	var bwg sync.WaitGroup
	var conns []net.Conn
	var cmu sync.Mutex
	go func() {
		for {
			bc, err := bl.Accept()
			if err != nil {
				return
			}
			cmu.Lock()
			conns = append(conns, bc)
			cmu.Unlock()
			bwg.Add(1)
			go func() {
				defer bwg.Done()
				var ps mqttref.Parser
				buf := make([]byte, 4096)
				for {
					n, err := bc.Read(buf)
					for _, pk := range ps.Feed(buf[:n]) {
						switch pk.Type {
						case mqttref.CONNECT:
							bc.Write(mqttref.Encode(mqttref.Pkt{Type: mqttref.CONNACK}))
						case mqttref.PINGREQ:
							bc.Write(mqttref.Encode(mqttref.Pkt{Type: mqttref.PINGRESP}))
						}
					}
					if err != nil {
						if err != io.EOF {
							_ = err
						}
						return
					}
				}
			}()
		}
	}()
	defer func() {
		cmu.Lock()
		for _, bc := range conns {
			bc.Close()
		}
		cmu.Unlock()
	}()
	var p *proc
	var gwAddr *net.UDPAddr
	up := false
	for attempt := 0; attempt < 4 && !up; attempt++ {
		port, s := freeUDPPort()
		if s == nil {
			r.Skip = true
			return
		}
		s.Close()
		p, err = start("bisquitt", []string{"--host", "127.0.0.1", "--port", fmt.Sprint(port), "--mqtt-host", "127.0.0.1", "--mqtt-port", fmt.Sprint(bl.Addr().(*net.TCPAddr).Port)}, nil)
		if err != nil {
			r.Skip = true
			return
		}
		defer p.kill()
		gwAddr = &net.UDPAddr{IP: net.IPv4(127, 0, 0, 1), Port: port}
		for i := 0; i < 100 && !p.exited(); i++ {
			if l, err := net.ListenUDP("udp", gwAddr); err != nil {
				up = true
				break
			} else {
				l.Close()
			}
			time.Sleep(30 * time.Millisecond)
		}
		if p.exited() && strings.Contains(p.output(), "address already in use") {
			continue
		}
		break
	}
	if !up || p.exited() {
		r.Skip = true
		return
	}
	var peers []snPeer
	defer func() {
		for _, pe := range peers {
			pe.c.Close()
		}
	}()
	for i, st := range c.States {
		uc, err := net.DialUDP("udp", nil, gwAddr)
		if err != nil {
			r.Skip = true
			return
		}
		pe := snPeer{uc}
		peers = append(peers, pe)
		pe.send(nil, snref.Pkt{Type: snref.CONNECT, ProtocolID: 1, Duration: 60, ClientID: []byte(fmt.Sprintf("c%d", i)), Clean: true})
		if pk, _, ok := pe.recv(5 * time.Second); !ok || pk.Type != snref.CONNACK || pk.RC != 0 {
			r.Skip = true
			return
		}
		if st == "asleep" {
			pe.send(nil, snref.Pkt{Type: snref.DISCONNECT, Duration: 60})
			if pk, _, ok := pe.recv(5 * time.Second); !ok || pk.Type != snref.DISCONNECT {
				r.Skip = true
				return
			}
		}
	}
	time.Sleep(time.Duration(c.PauseMs) * time.Millisecond)
	sig := syscall.SIGTERM
	if c.Signal == "INT" {
		sig = syscall.SIGINT
	}
	if err := p.cmd.Process.Signal(sig); err != nil {
		r.Skip = true
		return
	}
	select {
	case <-p.done:
	case <-time.After(15 * time.Second):
		r.Skip = true // (a gateway which does not stop is not this part's oracle)
		vf.Count("c13_shutdown_no_exit", 1)
		return
	}
	// the process is gone: whatever it sent is in the sockets' queues by now
	for i, pe := range peers {
		n := 0
		for {
			pk, _, ok := pe.recv(150 * time.Millisecond)
			if !ok {
				break
			}
			if pk.Type == snref.DISCONNECT {
				n++
			}
		}
		want := 0
		if c.States[i] == "active" {
			want = 1
		}
		if n != want {
			r.Fail(fmt.Sprintf("shutdown-disconnect-count/%s/want=%d,got=%d", c.States[i], want, min(n, 2)), "bisquitt stopped by SIG%s with %d clients %v: client %d (%s) received %d DISCONNECT(s), expected %d; the process exited (%v)\n%s", c.Signal, len(peers), c.States, i, c.States[i], n, want, p.err, p.output())
			return
		}
	}
	return
}
