package cli

import (
	"bufio"
	"bytes"
	"fmt"
	"io"
	"net"
	"os"
	"os/exec"
	"path/filepath"
	"sort"
	"strings"
	"sync"
	"testing"
	"time"

	"pgregory.net/rapid"

	"verif/harness/mqttref"
	"verif/harness/snref"
	"verif/harness/vf"
)

// Process-level checks: the three command-line tools, built from /repo's working
// tree by the driver ($VERIF_BIN), on real loopback sockets and real time.
// Timeouts are generous and their expiry is inconclusive (the case is skipped),
// never a violation.

func bin(name string) string {
	d := os.Getenv("VERIF_BIN")
	if d == "" {
		d = "/verif/.build/bin"
	}
	return filepath.Join(d, name)
}

func freeUDPPort() (int, *net.UDPConn) {
	c, err := net.ListenUDP("udp", &net.UDPAddr{IP: net.IPv4(127, 0, 0, 1)})
	if err != nil {
		return 0, nil
	}
	return c.LocalAddr().(*net.UDPAddr).Port, c
}

type proc struct {
	cmd  *exec.Cmd
	out  bytes.Buffer
	mu   sync.Mutex
	done chan struct{}
	err  error
}

func start(name string, args []string, env []string) (*proc, error) {
	p := &proc{done: make(chan struct{})}
	p.cmd = exec.Command(bin(name), args...)
	p.cmd.Env = append([]string{"PATH=" + os.Getenv("PATH"), "HOME=/tmp"}, env...)
	pr, pw := io.Pipe()
	p.cmd.Stdout, p.cmd.Stderr = pw, pw
	go func() {
		sc := bufio.NewScanner(pr)
		for sc.Scan() {
			p.mu.Lock()
			p.out.WriteString(sc.Text() + "\n")
			p.mu.Unlock()
		}
	}()
	if err := p.cmd.Start(); err != nil {
		return nil, err
	}
	go func() {
		p.err = p.cmd.Wait()
		pw.Close()
		close(p.done)
	}()
	return p, nil
}

func (p *proc) exited() bool {
	select {
	case <-p.done:
		return true
	default:
		return false
	}
}

func (p *proc) kill() {
	if !p.exited() {
		p.cmd.Process.Kill()
		<-p.done
	}
}

func (p *proc) output() string {
	p.mu.Lock()
	defer p.mu.Unlock()
	s := p.out.String()
	if len(s) > 600 {
		s = s[:600]
	}
	return s
}

// ---- C31 (a): credentials are never sent in plaintext unless explicitly allowed -------------------

type c31Case struct {
	Tool     string `json:"tool"`
	Creds    string `json:"creds"` // flag, env, absent; gateway only: flag-false (--auth=false), env-false (AUTH=false)
	Password bool   `json:"password"`
	DTLS     bool   `json:"dtls"`
	// SelfSignedOnly: --self-signed (a certificate is available) WITHOUT --dtls: the transport is plain UDP
	SelfSignedOnly bool `json:"self_signed_only,omitempty"`
	Insecure string `json:"insecure"` // off, flag, env, flag-false (--insecure=false), env-false (INSECURE=false)
}

func runC31(c c31Case) (r vf.Result) {
	r.NonTrivial = true
	r.Label("tool="+c.Tool, "creds="+c.Creds)
	port, sock := freeUDPPort()
	if sock == nil {
		r.Skip = true
		return
	}
	var args, env []string
	isGW := c.Tool == "bisquitt"
	if isGW {
		sock.Close() // the gateway binds the port itself
		args = []string{"--host", "127.0.0.1", "--port", fmt.Sprint(port), "--mqtt-host", "127.0.0.1", "--mqtt-port", "1"}
		switch c.Creds {
		case "flag":
			args = append(args, "--auth")
		case "env":
			env = append(env, "AUTH=true")
		case "flag-false":
			args = append(args, "--auth=false")
		case "env-false":
			env = append(env, "AUTH=false")
		}
	} else {
		defer sock.Close()
		args = []string{"--host", "127.0.0.1", "--port", fmt.Sprint(port), "--topic", "ab"}
		if c.Tool == "bisquitt-pub" {
			args = append(args, "--message", "m")
		}
		switch c.Creds {
		case "flag":
			args = append(args, "--user", "alice")
		case "env":
			env = append(env, "USERNAME=alice")
		}
		if c.Password {
			args = append(args, "--password", "secret")
		}
	}
	if c.DTLS {
		args = append(args, "--dtls", "--self-signed")
	} else if c.SelfSignedOnly {
		args = append(args, "--self-signed")
	}
	switch c.Insecure {
	case "flag":
		args = append(args, "--insecure")
	case "env":
		env = append(env, "INSECURE=true")
	case "flag-false":
		args = append(args, "--insecure=false")
	case "env-false":
		env = append(env, "INSECURE=false")
	}
	// what counts is the value of an option, not whether it is mentioned
	credsOn := c.Creds == "flag" || c.Creds == "env"
	insecureOn := c.Insecure == "flag" || c.Insecure == "env"
	mustRefuse := credsOn && !c.DTLS && !insecureOn
	p, err := start(c.Tool, args, env)
	if err != nil {
		r.Skip = true
		return
	}
	defer p.kill()
	desc := fmt.Sprintf("%s %s env=%v", c.Tool, strings.Join(args, " "), env)
	// observe: either the tool exits, or it reaches the network
	reached := false
	deadline := time.Now().Add(6 * time.Second)
	buf := make([]byte, 2048)
	for time.Now().Before(deadline) && !reached {
		if isGW {
			// has the gateway bound its UDP port?
			if l, err := net.ListenUDP("udp", &net.UDPAddr{IP: net.IPv4(127, 0, 0, 1), Port: port}); err != nil {
				reached = true
			} else {
				l.Close()
			}
		} else {
			sock.SetReadDeadline(time.Now().Add(100 * time.Millisecond))
			if n, _, err := sock.ReadFromUDP(buf); err == nil && n > 0 {
				reached = true
			}
		}
		if p.exited() {
			break
		}
		if isGW {
			time.Sleep(50 * time.Millisecond)
		}
	}
	if reached && !isGW && c.DTLS && credsOn && !insecureOn {
		// DTLS was asked for and the secure session cannot be set up: the peer refuses the
		// handshake (fatal alert handshake_failure). Whatever the tool does then, it must not go on
		// in the clear: no MQTT-SN CONNECT / AUTH datagram may follow.
		r.Label("dtls-handshake-refused")
		if buf[0] == 22 {
			alert := []byte{21, 0xfe, 0xfd, 0, 0, 0, 0, 0, 0, 0, 0, 0, 2, 2, 40}
			var from *net.UDPAddr
			// (the source address is learnt from the next datagram: the tool retransmits its ClientHello)
			end := time.Now().Add(2500 * time.Millisecond)
			for time.Now().Before(end) && !p.exited() {
				sock.SetReadDeadline(time.Now().Add(100 * time.Millisecond))
				n, a, err := sock.ReadFromUDP(buf)
				if err != nil || n == 0 {
					continue
				}
				from = a
				if buf[0] >= 20 && buf[0] <= 25 && n >= 3 && buf[1] == 0xfe {
					sock.WriteToUDP(alert, from) // still DTLS: refuse again
					continue
				}
				if pk, _, err := snref.Decode(buf[:n], false); err == nil && (pk.Type == snref.CONNECT || pk.Type == snref.AUTH) {
					r.Fail("plaintext-after-dtls-failure/"+c.Tool, "%s: the DTLS handshake was refused and the tool went on in clear UDP: %v (%x)\n%s", desc, pk, buf[:min(n, 40)], p.output())
					return
				}
			}
		}
	}
	switch {
	case mustRefuse && reached:
		r.Fail("plaintext-credentials-not-refused/"+c.Tool, "%s: credentials are configured, DTLS is off and --insecure is absent, but the tool went to the network\n%s", desc, p.output())
	case mustRefuse && !p.exited():
		r.Skip = true // neither refused nor reached the network within the time limit: inconclusive
	case mustRefuse && p.err == nil:
		r.Fail("refusal-exits-zero/"+c.Tool, "%s: the tool did not start but exited with status 0\n%s", desc, p.output())
	case !mustRefuse && !reached && p.exited() && strings.Contains(p.output(), "address already in use"):
		r.Skip = true // the port was grabbed by another process in the meantime
	case !mustRefuse && !reached && p.exited():
		r.Fail("valid-configuration-refused/"+c.Tool, "%s: nothing forbids this configuration but the tool exited (%v) without reaching the network\n%s", desc, p.err, p.output())
	case !mustRefuse && !reached:
		r.Skip = true
	}
	return
}

func TestC31CLI(t *testing.T) {
	vf.Check(t, vf.Prop[c31Case]{
		ID: "C31", Name: "cli-refuses-plaintext",
		Rule: "exhaustive: {bisquitt, bisquitt-pub, bisquitt-sub} x credentials {--auth / --user by flag, by environment variable, absent} x {--password given, absent} x {--dtls --self-signed on, off, --self-signed alone (the transport stays plain UDP)} x {--insecure absent, flag, environment, present with the value false as flag or environment} (for the gateway also --auth=false / AUTH=false): 255 process runs against loopback sockets; every combination is a distinct non-trivial case. The tool must refuse (non-zero exit, no datagram sent / UDP port never bound) iff credentials are configured, DTLS is off and the insecure option is not set to true (absent, or present with the value false); otherwise it must reach the network (first datagram observed / port bound), after which it is killed; a client tool which was given credentials and --dtls has its handshake refused by the peer (fatal alert) and is watched for 2.5 s: no MQTT-SN CONNECT or AUTH may follow in clear UDP.",
		Assumptions: []string{"real processes and real time: 6 s are allowed per run and an expiry is inconclusive (skipped)", "DTLS handshakes are not completed: only the decision to proceed is observed"},
		Exhaustive: func(tier string, yield func(c31Case)) {
			for _, tool := range []string{"bisquitt", "bisquitt-pub", "bisquitt-sub"} {
				credOpts := []string{"flag", "env", "absent"}
				if tool == "bisquitt" {
					credOpts = append(credOpts, "flag-false", "env-false")
				}
				for _, creds := range credOpts {
					for _, pw := range []bool{false, true} {
						if tool == "bisquitt" && pw {
							continue // the gateway has no --password of this kind
						}
						for _, dtls := range []int{0, 1, 2} { // off, on, off but --self-signed given
							for _, ins := range []string{"off", "flag", "env", "flag-false", "env-false"} {
								yield(c31Case{Tool: tool, Creds: creds, Password: pw, DTLS: dtls == 1, SelfSignedOnly: dtls == 2, Insecure: ins})
							}
						}
					}
				}
			}
		},
		Run: runC31,
	})
}

// ---- C30: predefined-topic configuration means the same in every tool -----------------------------

type c30Option struct {
	Client string `json:"client"` // "" = two-field form (applies to every client)
	Name   string `json:"name"`
	ID     uint16 `json:"id"`
}

type c30Case struct {
	File     map[string]map[uint16]string `json:"file"` // nil = no file
	// EmptyDoc: how a file without entries is written: 0 "{}", 1 a document of comments only (null),
	// 2 "~", 3 "null"; 4-6 no document at all: empty file, a newline, comments without "---"
	EmptyDoc int `json:"empty_doc,omitempty"`
	// EmptySection: how a client block without entries is written: 0 "c1:" (null), 1 "c1: {}", 2 "c1: ~"
	EmptySection int `json:"empty_section,omitempty"`
	Options  []c30Option                  `json:"options"`
	ViaEnv   bool                         `json:"via_env"`
	ProbeID  string                       `json:"probe_client"`
}

var c30Names = []string{"p/one", "p/two", "dev/any/data", "dev: 1", "yes", "q"}

func genC30(t *rapid.T) c30Case {
	c := c30Case{ViaEnv: rapid.Bool().Draw(t, "via_env"), ProbeID: rapid.SampledFrom([]string{"c1", "c2", "zz"}).Draw(t, "probe")}
	switch fk := rapid.IntRange(0, 5).Draw(t, "file"); {
	case fk == 0: // no file
	case fk == 1: // a file without entries
		c.File = map[string]map[uint16]string{}
	default:
		c.File = map[string]map[uint16]string{}
		for _, cl := range []string{"*", "c1", "c2"} {
			n := rapid.IntRange(0, 3).Draw(t, "nfile")
			if n == 0 && rapid.IntRange(0, 2).Draw(t, "empty_section") == 0 {
				// the block is there, its entries are not (all commented out, say)
				c.File[cl] = map[uint16]string{}
				c.EmptySection = rapid.IntRange(0, 2).Draw(t, "empty_section_form")
			}
			for i := 0; i < n; i++ {
				if c.File[cl] == nil {
					c.File[cl] = map[uint16]string{}
				}
				c.File[cl][uint16(rapid.IntRange(1, 4).Draw(t, "fid"))] = rapid.SampledFrom(c30Names).Draw(t, "fname")
			}
		}
	}
	if c.File != nil && len(c.File) == 0 {
		c.EmptyDoc = rapid.IntRange(0, 6).Draw(t, "empty_doc")
	}
	n := rapid.IntRange(0, 4).Draw(t, "nopts")
	for i := 0; i < n; i++ {
		o := c30Option{Client: rapid.SampledFrom([]string{"", "*", "c1", "c2"}).Draw(t, "ocl"),
			Name: rapid.SampledFrom(c30Names).Draw(t, "oname"), ID: uint16(rapid.IntRange(1, 4).Draw(t, "oid"))}
		// often aim the option at an entry the file (or an earlier option) already defines
		if rapid.Bool().Draw(t, "override") {
			var slots []c30Option
			for cl, e := range c.File {
				for id := range e {
					slots = append(slots, c30Option{Client: cl, ID: id})
				}
			}
			slots = append(slots, c.Options...)
			sort.Slice(slots, func(i, j int) bool {
				if slots[i].Client != slots[j].Client {
					return slots[i].Client < slots[j].Client
				}
				return slots[i].ID < slots[j].ID
			})
			if len(slots) > 0 {
				sl := rapid.SampledFrom(slots).Draw(t, "slot")
				o.Client, o.ID = sl.Client, sl.ID
				if o.Client == "*" && rapid.Bool().Draw(t, "twofield") {
					o.Client = ""
				}
			}
		}
		c.Options = append(c.Options, o)
	}
	return c
}

// model: the file's mapping, overridden entry by entry by the options in order;
// options without a client ID apply to every client.
func (c c30Case) model() map[string]map[uint16]string {
	m := map[string]map[uint16]string{}
	for cl, e := range c.File {
		m[cl] = map[uint16]string{}
		for id, n := range e {
			m[cl][id] = n
		}
	}
	for _, o := range c.Options {
		cl := o.Client
		if cl == "" {
			cl = "*"
		}
		if m[cl] == nil {
			m[cl] = map[uint16]string{}
		}
		m[cl][o.ID] = o.Name
	}
	return m
}

func lookupName(m map[string]map[uint16]string, client string, id uint16) (string, bool) {
	if e, ok := m[client]; ok {
		if n, ok := e[id]; ok {
			return n, true
		}
	}
	if e, ok := m["*"]; ok {
		if n, ok := e[id]; ok {
			return n, true
		}
	}
	return "", false
}

func yamlQuote(s string) string {
	return `"` + strings.NewReplacer(`\`, `\\`, `"`, `\"`).Replace(s) + `"`
}

func (c c30Case) configArgs(dir string) (args, env []string, err error) {
	if c.File != nil {
		var sb strings.Builder
		sb.WriteString("---\n")
		var cls []string
		for cl := range c.File {
			cls = append(cls, cl)
		}
		sort.Strings(cls)
		for _, cl := range cls {
			if len(c.File[cl]) == 0 {
				fmt.Fprintf(&sb, "%s:%s\n", yamlQuote(cl), []string{"", " {}", " ~"}[c.EmptySection%3])
				continue
			}
			fmt.Fprintf(&sb, "%s:\n", yamlQuote(cl))
			var ids []int
			for id := range c.File[cl] {
				ids = append(ids, int(id))
			}
			sort.Ints(ids)
			for _, id := range ids {
				fmt.Fprintf(&sb, "  %d: %s\n", id, yamlQuote(c.File[cl][uint16(id)]))
			}
		}
		if len(c.File) == 0 {
			if c.EmptyDoc >= 4 {
				// no document at all: an empty file, a newline, comments only (no "---" either)
				sb.Reset()
				sb.WriteString([]string{"", "\n", "# no entries yet\n# c1:\n#   1: commented/out\n"}[c.EmptyDoc-4])
			} else {
				sb.WriteString([]string{"{}\n", "# c1:\n#   1: commented/out\n", "~\n", "null\n"}[c.EmptyDoc%4])
			}
		}
		path := filepath.Join(dir, "topics.yaml")
		if err := os.WriteFile(path, []byte(sb.String()), 0o644); err != nil {
			return nil, nil, err
		}
		if c.ViaEnv {
			env = append(env, "PREDEFINED_TOPICS_FILE="+path)
		} else {
			args = append(args, "--predefined-topics-file", path)
		}
	}
	var opts []string
	for _, o := range c.Options {
		if o.Client == "" {
			opts = append(opts, fmt.Sprintf("%s;%d", o.Name, o.ID))
		} else {
			opts = append(opts, fmt.Sprintf("%s;%s;%d", o.Client, o.Name, o.ID))
		}
	}
	if len(opts) > 0 {
		if c.ViaEnv {
			env = append(env, "PREDEFINED_TOPIC="+strings.Join(opts, ","))
		} else {
			for _, o := range opts {
				args = append(args, "--predefined-topic", o)
			}
		}
	}
	return
}

// snPeer is a UDP endpoint speaking MQTT-SN through the reference codec.
type snPeer struct{ c *net.UDPConn }

func (p snPeer) send(to *net.UDPAddr, pk snref.Pkt) {
	if to == nil {
		p.c.Write(snref.Encode(pk))
	} else {
		p.c.WriteToUDP(snref.Encode(pk), to)
	}
}

func (p snPeer) recv(d time.Duration) (snref.Pkt, *net.UDPAddr, bool) {
	buf := make([]byte, 8192)
	p.c.SetReadDeadline(time.Now().Add(d))
	n, from, err := p.c.ReadFromUDP(buf)
	if err != nil {
		return snref.Pkt{}, nil, false
	}
	pk, _, derr := snref.Decode(buf[:n], false)
	return pk, from, derr == nil
}

// probeGateway starts bisquitt with the configuration and returns, for every
// predefined ID 1-4, the topic name the broker saw for a PUBLISH on that ID by
// client probe ("" = the session was dropped, nothing forwarded).
func probeGateway(c c30Case, dir string, r *vf.Result) (map[uint16]string, bool) {
	cfgArgs, env, err := c.configArgs(dir)
	if err != nil {
		vf.Count("c30_probe_fail_1", 1)
			return nil, false
	}
	bl, err := net.Listen("tcp", "127.0.0.1:0")
	if err != nil {
		vf.Count("c30_probe_fail_2", 1)
			return nil, false
	}
	defer bl.Close()
	var p *proc
	var args []string
	var gwAddr *net.UDPAddr
	up := false
	for attempt := 0; attempt < 4; attempt++ {
		port, s := freeUDPPort()
		if s == nil {
			vf.Count("c30_probe_fail_3", 1)
			return nil, false
		}
		s.Close()
		args = append([]string{"--host", "127.0.0.1", "--port", fmt.Sprint(port), "--mqtt-host", "127.0.0.1", "--mqtt-port", fmt.Sprint(bl.Addr().(*net.TCPAddr).Port)}, cfgArgs...)
		p, err = start("bisquitt", args, env)
		if err != nil {
			vf.Count("c30_probe_fail_4", 1)
			return nil, false
		}
		defer p.kill()
		gwAddr = &net.UDPAddr{IP: net.IPv4(127, 0, 0, 1), Port: port}
		// wait for the port
		for i := 0; i < 100 && !p.exited(); i++ {
			if l, err := net.ListenUDP("udp", gwAddr); err != nil {
				up = true
				break
			} else {
				l.Close()
			}
			time.Sleep(30 * time.Millisecond)
		}
		if p.exited() && strings.Contains(p.output(), "address already in use") {
			continue // another process grabbed the port between probing and binding: try again
		}
		break
	}
	if p.exited() {
		r.Fail("tool-refuses-valid-configuration/bisquitt", "bisquitt %s env=%v exited: %v\n%s", strings.Join(args, " "), env, p.err, p.output())
		return nil, true
	}
	if !up {
		vf.Count("c30_probe_fail_5", 1)
			return nil, false
	}
	seen := map[uint16]string{}
	for id := uint16(1); id <= 4; id++ {
		uc, err := net.DialUDP("udp", nil, gwAddr)
		if err != nil {
			vf.Count("c30_probe_fail_6", 1)
			return nil, false
		}
		peer := snPeer{uc}
		peer.send(nil, snref.Pkt{Type: snref.CONNECT, ProtocolID: 1, Duration: 60, ClientID: []byte(c.ProbeID), Clean: true})
		bl.(*net.TCPListener).SetDeadline(time.Now().Add(5 * time.Second))
		bc, err := bl.Accept()
		if err != nil {
			uc.Close()
			vf.Count("c30_probe_fail_7", 1)
			return nil, false
		}
		var ps mqttref.Parser
		readPkt := func(d time.Duration) (mqttref.Pkt, bool, bool) { // pkt, ok, eof
			buf := make([]byte, 4096)
			end := time.Now().Add(d)
			for time.Now().Before(end) {
				bc.SetReadDeadline(time.Now().Add(200 * time.Millisecond))
				n, err := bc.Read(buf)
				if n > 0 {
					if pk := ps.Feed(buf[:n]); len(pk) > 0 {
						return pk[0], true, false
					}
				}
				if err == io.EOF {
					return mqttref.Pkt{}, false, true
				}
			}
			return mqttref.Pkt{}, false, false
		}
		if pk, ok, eof := readPkt(5 * time.Second); !ok || pk.Type != mqttref.CONNECT {
			_ = eof
			bc.Close()
			uc.Close()
			vf.Count("c30_probe_fail_8", 1)
			return nil, false
		}
		bc.Write(mqttref.Encode(mqttref.Pkt{Type: mqttref.CONNACK}))
		if pk, _, ok := peer.recv(5 * time.Second); !ok || pk.Type != snref.CONNACK {
			bc.Close()
			uc.Close()
			vf.Count("c30_probe_fail_9", 1)
			return nil, false
		}
		peer.send(nil, snref.Pkt{Type: snref.PUBLISH, TIT: snref.TITPredefined, TopicID: id, QoS: 0, Data: []byte("probe")})
		pk, ok, eof := readPkt(3 * time.Second)
		switch {
		case ok && pk.Type == mqttref.PUBLISH:
			seen[id] = pk.Topic
		case eof:
			seen[id] = ""
		default:
			bc.Close()
			uc.Close()
			vf.Count("c30_probe_fail_10", 1)
			return nil, false
		}
		if !eof {
			// (a datagram to a session the gateway has already dropped would open a new session)
			peer.send(nil, snref.Pkt{Type: snref.DISCONNECT, NoDuration: true})
			readPkt(2 * time.Second) // the MQTT DISCONNECT
		}
		bc.Close()
		uc.Close()
	}
	return seen, true
}

// runClientTool runs bisquitt-pub / bisquitt-sub against a scripted UDP gateway and
// reports how each topic name was addressed: "predefined:<id>" or "name:<name>".
func runClientTool(tool string, c c30Case, names []string, dir string, r *vf.Result) ([]string, bool) {
	cfgArgs, env, err := c.configArgs(dir)
	if err != nil {
		return nil, false
	}
	port, sock := freeUDPPort()
	if sock == nil {
		return nil, false
	}
	defer sock.Close()
	args := []string{"--host", "127.0.0.1", "--port", fmt.Sprint(port), "--client-id", c.ProbeID}
	for _, n := range names {
		args = append(args, "--topic", n)
	}
	if tool == "bisquitt-pub" {
		args = append(args, "--message", "m", "--qos", "0")
	}
	args = append(args, cfgArgs...)
	p, err := start(tool, args, env)
	if err != nil {
		return nil, false
	}
	defer p.kill()
	peer := snPeer{sock}
	var how []string
	nextID := uint16(100)
	deadline := time.Now().Add(8 * time.Second)
	for time.Now().Before(deadline) && len(how) < len(names) {
		pk, from, ok := peer.recv(200 * time.Millisecond)
		if !ok {
			if p.exited() {
				break
			}
			continue
		}
		switch pk.Type {
		case snref.CONNECT:
			peer.send(from, snref.Pkt{Type: snref.CONNACK})
		case snref.REGISTER:
			nextID++
			peer.send(from, snref.Pkt{Type: snref.REGACK, TopicID: nextID, MsgID: pk.MsgID})
			if tool == "bisquitt-pub" {
				how = append(how, "name:"+pk.TopicName)
			}
		case snref.PUBLISH:
			if pk.TIT == snref.TITPredefined {
				how = append(how, fmt.Sprintf("predefined:%d", pk.TopicID))
			} else if pk.TIT == snref.TITShort {
				how = append(how, "name:"+snref.ShortName(pk.TopicID))
			}
		case snref.SUBSCRIBE:
			switch pk.TIT {
			case snref.TITPredefined:
				how = append(how, fmt.Sprintf("predefined:%d", pk.TopicID))
				peer.send(from, snref.Pkt{Type: snref.SUBACK, MsgID: pk.MsgID, TopicID: pk.TopicID})
			case snref.TITShort:
				how = append(how, "name:"+snref.ShortName(pk.TopicID))
				peer.send(from, snref.Pkt{Type: snref.SUBACK, MsgID: pk.MsgID})
			default:
				how = append(how, "name:"+pk.TopicName)
				nextID++
				peer.send(from, snref.Pkt{Type: snref.SUBACK, MsgID: pk.MsgID, TopicID: nextID})
			}
		case snref.DISCONNECT:
			peer.send(from, snref.Pkt{Type: snref.DISCONNECT, NoDuration: true})
		case snref.PINGREQ:
			peer.send(from, snref.Pkt{Type: snref.PINGRESP})
		}
	}
	if len(how) < len(names) {
		if p.exited() && p.err != nil {
			r.Fail("tool-refuses-valid-configuration/"+tool, "%s %s env=%v exited: %v\n%s", tool, strings.Join(args, " "), env, p.err, p.output())
			return nil, true
		}
		return nil, false
	}
	return how, true
}

func runC30(c c30Case) (r vf.Result) {
	dir, err := os.MkdirTemp("", "verif-c30-")
	if err != nil {
		r.Skip = true
		return
	}
	defer os.RemoveAll(dir)
	m := c.model()
	overlap := false
	for _, o := range c.Options {
		cl := o.Client
		if cl == "" {
			cl = "*"
		}
		if _, ok := c.File[cl][o.ID]; ok {
			overlap = true
		}
	}
	r.NonTrivial = c.File != nil && len(c.Options) > 0 && overlap
	if c.ViaEnv {
		r.Label("via-environment")
	}
	desc := fmt.Sprintf("file %v options %v probe client %q", c.File, c.Options, c.ProbeID)
	// 1. the gateway
	seen, ok := probeGateway(c, dir, &r)
	if len(r.Violations) > 0 {
		return
	}
	if !ok {
		r.Skip = true
		vf.Count("c30_skip_gateway_probe", 1)
		return
	}
	for id := uint16(1); id <= 4; id++ {
		want, _ := lookupName(m, c.ProbeID, id)
		if seen[id] != want {
			r.Fail("gateway-mapping-differs", "%s: PUBLISH on predefined ID %d reached the broker as %q, the configuration means %q", desc, id, seen[id], want)
			return
		}
	}
	// 2. bisquitt-pub and bisquitt-sub: names the model knows for this client, and one it does not
	var names []string
	for id := uint16(1); id <= 4; id++ {
		if n, ok := lookupName(m, c.ProbeID, id); ok && len(names) < 2 && !contains(names, n) {
			names = append(names, n)
		}
	}
	names = append(names, "not/configured")
	check := func(tool string, name, how string) bool {
		var ids []uint16
		for id := uint16(1); id <= 4; id++ {
			if n, ok := lookupName(m, c.ProbeID, id); ok && n == name {
				ids = append(ids, id)
			}
		}
		if strings.HasPrefix(how, "predefined:") {
			var id uint16
			fmt.Sscanf(how, "predefined:%d", &id)
			if n, ok := lookupName(m, c.ProbeID, id); !ok || n != name {
				r.Fail("tool-mapping-differs/"+tool, "%s: %s addressed %q as predefined ID %d, which the configuration maps to %q for this client", desc, tool, name, id, n)
				return false
			}
			return true
		}
		if how != "name:"+name {
			r.Fail("tool-mapping-differs/"+tool, "%s: %s addressed %q as %s", desc, tool, name, how)
			return false
		}
		if len(ids) > 0 {
			r.Fail("tool-ignores-predefined/"+tool, "%s: %s addressed %q by name although the configuration gives it predefined ID(s) %v for this client", desc, tool, name, ids)
			return false
		}
		return true
	}
	for _, n := range names {
		how, ok := runClientTool("bisquitt-pub", c, []string{n}, dir, &r)
		if len(r.Violations) > 0 {
			return
		}
		if !ok {
			r.Skip = true
			vf.Count("c30_skip_pub", 1)
			return
		}
		if !check("bisquitt-pub", n, how[0]) {
			return
		}
	}
	how, ok := runClientTool("bisquitt-sub", c, names, dir, &r)
	if len(r.Violations) > 0 {
		return
	}
	if !ok {
		r.Skip = true
		vf.Count("c30_skip_sub", 1)
		return
	}
	for i, n := range names {
		if !check("bisquitt-sub", n, how[i]) {
			return
		}
	}
	return
}

func contains(s []string, x string) bool {
	for _, y := range s {
		if y == x {
			return true
		}
	}
	return false
}

func TestC30(t *testing.T) {
	vf.Check(t, vf.Prop[c30Case]{
		ID: "C30", Name: "predefined-config",
		Rule: "real binaries on loopback sockets: a YAML file (0-3 client blocks from {'*', c1, c2}, IDs 1-4, names incl. ones that need YAML quoting; a file without entries written as {}, as a document of comments only, as ~ or as null, or without any document at all (empty file, a newline, comments without '---'); a client block without entries written as 'c1:', 'c1: {}' or 'c1: ~') and/or 0-4 --predefined-topic options ('name;id' and 'client;name;id', overlapping the file and each other, order significant), given by flags or by environment variables; a probe client ID inside or outside the configuration. bisquitt is probed with a PUBLISH on each predefined ID 1-4 (broker-side topic or dropped session), bisquitt-pub and bisquitt-sub with topic names the model knows for the probe client and one it does not (PUBLISH/SUBSCRIBE by predefined ID vs REGISTER/SUBSCRIBE by name). Non-trivial = a configuration with both a file and at least one option that overrides a file entry; distinct by case.",
		Assumptions: []string{"model mapping = the file's, overridden entry by entry by the options in order, two-field options under '*'", "an ID chosen by a tool passes if the model maps it back to the requested name for this client (C05's shadowing question is not double-reported)", "real time: a timeout is inconclusive (skipped)"},
		Gen:         genC30,
		Run:         runC30,
	})
}
