package codec

import (
	"bytes"
	"encoding/json"
	"fmt"
	"testing"

	"pgregory.net/rapid"

	pkts "github.com/energomonitor/bisquitt/packets"
	p1 "github.com/energomonitor/bisquitt/packets1"

	"verif/harness/snconv"
	"verif/harness/sngen"
	"verif/harness/snref"
	"verif/harness/vf"
)

// oneShot is a "packet reader": one Read returns one whole datagram.
type oneShot struct{ b []byte }

func (o *oneShot) Read(p []byte) (int, error) { return copy(p, o.b), nil }

func decodeImpl(b []byte) (pkt pkts.Packet, err error, pan *vf.Violation) {
	pan = vf.Recover("decode-panic", func() {
		pkt, err = p1.ReadPacket(&oneShot{b})
	})
	return
}

type dgramCase struct {
	B []byte `json:"b"`
}

func exhaustiveShort(tier string, yield func(dgramCase)) {
	max := 2
	if tier == "thorough" {
		max = 3
	}
	yield(dgramCase{B: []byte{}})
	for n := 1; n <= max; n++ {
		b := make([]byte, n)
		total := 1 << (8 * n)
		for v := 0; v < total; v++ {
			for i := 0; i < n; i++ {
				b[i] = byte(v >> (8 * (n - 1 - i)))
			}
			yield(dgramCase{B: append([]byte(nil), b...)})
		}
	}
}

func reachesTypeDecoder(b []byte) bool {
	h, err := snref.ParseHeader(b)
	return err == nil && snref.KnownType(h.Type)
}

// C20: decoding any datagram never panics.
func TestC20(t *testing.T) {
	vf.Check(t, vf.Prop[dgramCase]{
		ID: "C20", Name: "decode-no-panic",
		Rule: "byte strings: exhaustive for lengths 0-2 (quick) / 0-3 (thorough), then structurally generated datagrams (tiny hostile inputs; arbitrary bodies behind plausible headers; valid packets of all 28 types with tampered header form, length field, truncation, extension, AUTH method-length overrun). Non-trivial = the input passes the header stage and names one of the 28 known types, i.e. reaches a type-specific decoder; distinct by bytes (exhaustive part distinct by construction).",
		Assumptions: []string{"entry point is packets1.ReadPacket on a reader that returns one datagram per Read, as both the gateway and the client use it"},
		Exhaustive:  exhaustiveShort,
		Gen:         func(t *rapid.T) dgramCase { return dgramCase{B: sngen.Datagram(t)} },
		Run: runC20,
	})
}

func runC20(c dgramCase) (r vf.Result) {
	pkt, err, pan := decodeImpl(c.B)
	if pan != nil {
		r.Add(*pan)
		return
	}
	if (pkt == nil) == (err == nil) {
		r.Fail("decode-neither", "ReadPacket returned pkt=%v err=%v", pkt, err)
	}
	r.NonTrivial = reachesTypeDecoder(c.B)
	if err == nil {
		r.Label("accepted")
		// the packet's Stringer and Pack must not panic either (logging and re-sending paths)
		if pan := vf.Recover("decoded-string-panic", func() { _ = pkt.String() }); pan != nil {
			r.Add(*pan)
		}
	} else {
		r.Label("rejected")
	}
	if len(c.B) > 0 && c.B[0] == 1 {
		r.Label("long-form")
	}
	return
}

func normJSON(p snref.Pkt) string {
	// nil and empty byte strings are the same value
	if len(p.Data) == 0 {
		p.Data = nil
	}
	if len(p.ClientID) == 0 {
		p.ClientID = nil
	}
	if len(p.GwAddr) == 0 {
		p.GwAddr = nil
	}
	if p.Type == snref.DISCONNECT && p.Duration == 0 {
		p.NoDuration = true
	}
	b, _ := json.Marshal(p)
	return string(b)
}

type pktCase struct {
	P snref.Pkt `json:"p"`
}

func flagCount(p snref.Pkt) int {
	n := 0
	for _, b := range []bool{p.DUP, p.Retain, p.Will, p.Clean, p.QoS != 0, p.TIT != 0} {
		if b {
			n++
		}
	}
	return n
}

// C21: encode-then-decode round trip, agreement with the reference encoder,
// length-field rules.
func TestC21(t *testing.T) {
	vf.Check(t, vf.Prop[pktCase]{
		ID: "C21", Name: "roundtrip",
		Rule: "packets of all 28 types built through the public constructors from field values in their legal ranges (IDs boundary-biased over uint16, every flag combination the type defines, names/payloads 0..7168 with the 255/256 length switch over-sampled). Non-trivial = encoding within 3 octets of the one-/three-octet switch or longer than 255, or >= 2 flags set; distinct by the packet value.",
		Assumptions: []string{"CONNECT ProtocolId is 1 (the decoder rejects others by design)", "empty WILLTOPIC/WILLTOPICUPD carry no flags (spec 5.4.7)"},
		Gen: func(t *rapid.T) pktCase {
			return pktCase{P: sngen.LegalPkt(t, sngen.AnyType().Draw(t, "type"))}
		},
		Run: func(c pktCase) (r vf.Result) {
			r.Label(snref.TypeName(c.P.Type))
			impl, err := snconv.ToImpl(c.P)
			if err != nil {
				r.Fail("harness", "%v", err)
				return
			}
			var enc []byte
			if pan := vf.Recover("encode-panic", func() { enc, err = impl.Pack() }); pan != nil {
				r.Add(*pan)
				return
			}
			if err != nil {
				r.Fail("encode-error/"+snref.TypeName(c.P.Type), "Pack: %v", err)
				return
			}
			want := snref.Encode(c.P)
			if !bytes.Equal(enc, want) {
				r.Fail("encode-differs-from-reference/"+snref.TypeName(c.P.Type), "impl % x...\nref  % x...", head(enc), head(want))
			}
			// length field == datagram size, one-octet form iff size <= 255
			h, herr := snref.ParseHeader(enc)
			if herr != nil {
				r.Fail("encode-header", "%v", herr)
				return
			}
			if h.Length != len(enc) {
				r.Fail("length-field/"+snref.TypeName(c.P.Type), "length field %d, datagram %d octets", h.Length, len(enc))
			}
			if h.Long != (len(enc) > 255) {
				r.Fail("length-form/"+snref.TypeName(c.P.Type), "three-octet form=%v for %d octets", h.Long, len(enc))
			}
			dec, derr, pan := decodeImpl(enc)
			if pan != nil {
				r.Add(*pan)
				return
			}
			if derr != nil {
				r.Fail("roundtrip-decode-error/"+snref.TypeName(c.P.Type), "decoding own encoding: %v", derr)
				return
			}
			got, err := snconv.FromImpl(dec)
			if err != nil {
				r.Fail("harness", "%v", err)
				return
			}
			if normJSON(got) != normJSON(c.P) {
				r.Fail("roundtrip-mismatch/"+snref.TypeName(c.P.Type), "sent %s\n got %s", normJSON(c.P), normJSON(got))
			}
			if len(enc) > 255 {
				r.Label("long")
			}
			r.NonTrivial = len(enc) >= 252 || flagCount(c.P) >= 2
			return
		},
	})
}

func head(b []byte) []byte {
	if len(b) > 48 {
		return b[:48]
	}
	return b
}

type shortCase struct {
	From uint32 `json:"from"`
	To   uint32 `json:"to"`
}

// C21 (second half): the short-topic encoding is a bijection, exhaustively.
func TestC21Short(t *testing.T) {
	vf.Check(t, vf.Prop[shortCase]{
		ID: "C21", Name: "short-bijection",
		Rule: "all 65536 topic IDs and all 65536 two-octet names, enumerated in 16 blocks; every block is non-trivial (each covers 4096 distinct IDs)",
		Exhaustive: func(tier string, yield func(shortCase)) {
			for i := uint32(0); i < 16; i++ {
				yield(shortCase{From: i * 4096, To: i*4096 + 4095})
			}
		},
		Run: func(c shortCase) (r vf.Result) {
			r.NonTrivial = true
			for v := c.From; v <= c.To; v++ {
				id := uint16(v)
				name := pkts.DecodeShortTopic(id)
				if len(name) != 2 || !pkts.IsShortTopic(name) {
					r.Fail("short-decode-len", "DecodeShortTopic(%#x) = %q", id, name)
					return
				}
				if name != snref.ShortName(id) {
					r.Fail("short-decode", "DecodeShortTopic(%#x) = %q, want %q", id, name, snref.ShortName(id))
					return
				}
				if back := pkts.EncodeShortTopic(name); back != id {
					r.Fail("short-roundtrip", "Encode(Decode(%#x)) = %#x", id, back)
					return
				}
				vf.Count("short_ids_checked", 1)
			}
			return
		},
	})
}

// noiseLong: a legal 400-octet PUBLISH (three-octet length form) full of 0xa5
var noiseLong = func() []byte {
	b := []byte{0x01, 0x01, 0x90, 0x0c, 0x00, 0xa5, 0xa5, 0xa5, 0xa5}
	for len(b) < 400 {
		b = append(b, 0xa5)
	}
	return b
}()

// C22: decoded packets faithfully reflect the datagram.
func TestC22(t *testing.T) {
	vf.Check(t, vf.Prop[dgramCase]{
		ID: "C22", Name: "decode-faithful",
		Rule: "datagrams from the C20 generators (plus exhaustive lengths 0-2/0-3); those the decoder rejects are counted as label 'rejected' and not judged. Non-trivial = accepted datagram that uses the three-octet length form, has flag bits its type ignores, or whose length field disagrees with its size; distinct by bytes.",
		Assumptions: []string{"the body is everything after the actual header up to the end of the datagram, whatever the length field announces (the length field is the one allowed difference)", "the decoded packet is compared after two further datagrams (a 400-octet PUBLISH of 0xa5, a PUBACK) have been decoded: it must not depend on the decoder's buffers"},
		Exhaustive:  exhaustiveShort,
		Gen:         func(t *rapid.T) dgramCase { return dgramCase{B: sngen.Datagram(t)} },
		Run:         runC22,
	})
}

func runC22(c dgramCase) (r vf.Result) {
	pkt, err, pan := decodeImpl(c.B)
	if pan != nil {
		r.Label("panic(C20)")
		return // C20's business
	}
	if err != nil {
		r.Label("rejected")
		return
	}
	r.Label("accepted")
	// The decoded packet is what the gateway and the client keep (in transactions, in the buffer of a
	// sleeping client) while they go on reading datagrams: it must stay faithful when the decoder is
	// used again. Two more datagrams are decoded before the packet is looked at.
	for _, other := range [][]byte{noiseLong, {0x04, 0x10, 0xa5, 0x5a}} {
		decodeImpl(other)
	}
	h, herr := snref.ParseHeader(c.B)
	if herr != nil {
		r.Fail("accepted-without-header", "decoder accepted % x but it has no complete header: %v", head(c.B), herr)
		return
	}
	tn := snref.TypeName(h.Type)
	r.Label(tn)
	got, cerr := snconv.FromImpl(pkt)
	if cerr != nil {
		r.Fail("harness", "%v", cerr)
		return
	}
	if got.Type != h.Type {
		r.Fail("type-mismatch", "decoded as %s, type octet says %s (datagram % x)", snref.TypeName(got.Type), tn, head(c.B))
		return
	}
	// candidate bodies: to the end of the datagram; and to the announced length when that differs
	// The body is what follows the actual header, to the end of the datagram: the statement allows
	// the length field itself to differ, not the bytes it would cut off.
	bodies := [][]byte{c.B[h.HeaderLen:]}
	var firstDiff string
	ok := false
	var matchedBody []byte
	for _, body := range bodies {
		ref, rerr := snref.DecodeBody(h.Type, body)
		if rerr != nil {
			if firstDiff == "" {
				firstDiff = "reference rejects: " + rerr.Error()
			}
			continue
		}
		ref.ExtraFlags = 0 // ignorable bits
		if normJSON(ref) == normJSON(got) {
			ok, matchedBody = true, body
			break
		}
		if firstDiff == "" || firstDiff[:9] == "reference" {
			firstDiff = fmt.Sprintf("fields at spec offsets: %s\ndecoder returned:       %s", normJSON(ref), normJSON(got))
		}
	}
	if !ok {
		r.Fail("field-mismatch/"+tn, "datagram % x\n%s", head(c.B), firstDiff)
		return
	}
	// re-encoding reproduces type and body (modulo ignorable flag bits, zero DISCONNECT duration, length field)
	var re []byte
	if pan := vf.Recover("reencode-panic", func() { re, err = pkt.Pack() }); pan != nil {
		r.Add(*pan)
		return
	}
	if err != nil {
		r.Fail("reencode-error/"+tn, "%v", err)
		return
	}
	want := append([]byte(nil), matchedBody...)
	if d := snref.DefinedFlags(h.Type); d != 0 && len(want) > 0 {
		want[0] &= d
	}
	if h.Type == snref.DISCONNECT && len(want) == 2 && want[0] == 0 && want[1] == 0 {
		want = nil
	}
	// The length field itself is an allowed difference, and fixed-size packets
	// re-encode the length value they were decoded with (which may lie, e.g. 1):
	// so the re-encoding is accepted under either header form, whatever the
	// value of its length field.
	okRe := false
	if len(re) >= 2 && re[1] == h.Type && bytes.Equal(re[2:], want) {
		okRe = true
	}
	if len(re) >= 4 && re[0] == 1 && re[3] == h.Type && bytes.Equal(re[4:], want) {
		okRe = true
	}
	if !okRe {
		r.Fail("reencode-body/"+tn, "datagram % x\nbody       % x\nre-encoded % x", head(c.B), head(want), head(re))
	}
	ign := false
	if d := snref.DefinedFlags(h.Type); d != 0 && len(matchedBody) > 0 && matchedBody[0]&^d != 0 {
		ign = true
		r.Label("ignorable-flag-bits")
	}
	if h.Long {
		r.Label("long-form")
	}
	if h.Length != len(c.B) {
		r.Label("length-field-disagrees")
	}
	r.NonTrivial = h.Long || ign || h.Length != len(c.B)
	return
}
