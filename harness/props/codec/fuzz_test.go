package codec

import (
	"os"
	"testing"

	"verif/harness/vf"
)

// Native, coverage-guided fuzz targets (thorough tier only: `go test -fuzz` cannot be pinned to a
// seed; a saved crasher is the reproducible unit and is turned into an ordinary replay file by the
// driver). The oracles are the same functions the rapid-driven checks use.

func fuzzSeeds(f *testing.F) {
	for _, b := range [][]byte{
		{}, {0x01}, {0x01, 0x00}, {0x01, 0x00, 0x05}, {0x02, 0x18}, {0x04, 0x03, 0x00, 0xff}, {0x08, 0x03, 0x00, 0xfe, 0x61, 0x62, 0x63, 0x64},
		{0x01, 0x00, 0x0a, 0x0c, 0x00, 0x01, 0x02, 0x03, 0x04, 0x5a}, {0x02, 0xfe}, {0x04, 0x18, 0x01, 0x00}, {0x01, 0x00, 0x06, 0x18, 0x00, 0x05},
		{0x06, 0x04, 0x04, 0x01, 0x00, 0x3c}, {0x07, 0x0c, 0x62, 0x61, 0x62, 0x00, 0x01}, {0x07, 0x12, 0x20, 0x00, 0x01, 0x61, 0x2f}, {0x03, 0x17, 0x00},
		{0x07, 0x0b, 0x00, 0x01, 0x00, 0x02, 0x00}, {0x08, 0x13, 0x20, 0x00, 0x01, 0x00, 0x02, 0x00}, {0x05, 0x02, 0x01, 0x7f, 0x00},
	} {
		f.Add(b)
	}
	// a datagram of exactly 255 octets in the short form, and its neighbours
	for _, n := range []int{253, 254, 255, 256, 257} {
		b := make([]byte, n)
		if n <= 255 {
			b[0], b[1] = byte(n), 0x0c
		} else {
			b[0], b[1], b[2], b[3] = 1, byte(n>>8), byte(n), 0x0c
		}
		f.Add(b)
	}
}

func fuzzJudge(t *testing.T, id, name string, c dgramCase, r vf.Result) {
	for _, v := range r.Violations {
		if vf.IsKnown(id, v.Kind) {
			continue
		}
		// (the fuzzing engine minimises a failing input: the last file written is the smallest)
		vf.WriteReplayFile(id, name, c, &v, os.Getenv("VERIF_REPLAY_OUT"))
		t.Fatalf("violates %s: kind=%s %s", id, v.Kind, v.Detail)
	}
}

func FuzzC20(f *testing.F) {
	fuzzSeeds(f)
	f.Fuzz(func(t *testing.T, b []byte) {
		if len(b) > 8192 {
			return
		}
		c := dgramCase{B: append([]byte(nil), b...)}
		fuzzJudge(t, "C20", "decode-no-panic", c, runC20(c))
	})
}

func FuzzC22(f *testing.F) {
	fuzzSeeds(f)
	f.Fuzz(func(t *testing.T, b []byte) {
		if len(b) > 8192 {
			return
		}
		c := dgramCase{B: append([]byte(nil), b...)}
		fuzzJudge(t, "C22", "decode-faithful", c, runC22(c))
	})
}
