package e2e

import (
	"fmt"
	"sync"
	"testing"
	"time"

	"pgregory.net/rapid"

	"verif/harness/clsim"
	"verif/harness/e2e"
	"verif/harness/gwsim"
	"verif/harness/snref"
	"verif/harness/vf"
)

// ---- C16: QoS 1/2 delivery to clients survives datagram loss --------------------------------------

// stepFault describes what happens to the transmissions of one datagram type
// of one message flow: the first Lose transmissions are lost, the first
// delivered one is copied Dup extra times, the copies arriving DelayMs apart.
type stepFault struct {
	Lose    int `json:"lose,omitempty"`
	Dup     int `json:"dup,omitempty"`
	DelayMs int `json:"delay_ms,omitempty"`
}

type c16Msg struct {
	QoS    byte                 `json:"qos"`
	New    bool                 `json:"new_topic"`        // needs a REGISTER first
	Faults map[string]stepFault `json:"faults"`           // key: REGISTER REGACK PUBLISH PUBACK PUBREC PUBREL PUBCOMP
	Exceed string               `json:"exceed,omitempty"` // the gateway step whose budget the plan exceeds ("" = within budget)
	// Follow (new topic, within budget): QoS of further messages which the broker sends on the same
	// new topic right behind this one, before the client can have acknowledged the REGISTER
	Follow []byte `json:"follow,omitempty"`
}

type c16Case struct {
	Retries uint     `json:"retries"`
	RetryMs int      `json:"retry_ms"`
	Msgs    []c16Msg `json:"msgs"`
}

// gateway steps: the datagram the gateway (re)transmits and the acknowledgement that ends the step
var c16Pairs = [][2]string{{"REGISTER", "REGACK"}, {"PUBLISH", "PUBACK"}, {"PUBLISH", "PUBREC"}, {"PUBREL", "PUBCOMP"}}

func genC16(t *rapid.T) c16Case {
	c := c16Case{Retries: uint(rapid.IntRange(1, 4).Draw(t, "retries")), RetryMs: rapid.SampledFrom([]int{1000, 3000, 10000}).Draw(t, "retry_ms")}
	n := rapid.IntRange(1, 3).Draw(t, "n")
	for i := 0; i < n; i++ {
		m := c16Msg{QoS: byte(rapid.IntRange(1, 2).Draw(t, "qos")), New: rapid.Bool().Draw(t, "new"), Faults: map[string]stepFault{}}
		var pairs [][2]string
		if m.New {
			pairs = append(pairs, c16Pairs[0])
		}
		if m.QoS == 1 {
			pairs = append(pairs, c16Pairs[1])
		} else {
			pairs = append(pairs, c16Pairs[2], c16Pairs[3])
		}
		exceedAt := -1
		if rapid.IntRange(0, 4).Draw(t, "exceed") == 0 {
			exceedAt = rapid.IntRange(0, len(pairs)-1).Draw(t, "exceed_at")
		}
		for pi, p := range pairs {
			if pi == exceedAt {
				m.Exceed = p[0]
				// all transmissions of the step fail: either the request or its acknowledgement never gets through
				if rapid.Bool().Draw(t, "exceed_req") {
					m.Faults[p[0]] = stepFault{Lose: int(c.Retries) + 1}
				} else {
					m.Faults[p[1]] = stepFault{Lose: int(c.Retries) + 1}
				}
				break
			}
			budget := int(c.Retries)
			a := rapid.IntRange(0, budget).Draw(t, "lose_req")
			b := rapid.IntRange(0, budget-a).Draw(t, "lose_ack")
			fa := stepFault{Lose: a}
			fb := stepFault{Lose: b}
			if rapid.IntRange(0, 2).Draw(t, "dup") == 0 {
				fa.Dup, fa.DelayMs = rapid.IntRange(1, 2).Draw(t, "ndup"), rapid.SampledFrom([]int{0, 10, 1500, 25000}).Draw(t, "dupdelay")
			}
			if rapid.IntRange(0, 3).Draw(t, "dupack") == 0 {
				fb.Dup, fb.DelayMs = rapid.IntRange(1, 2).Draw(t, "ndupack"), rapid.SampledFrom([]int{0, 10, 1500}).Draw(t, "dupackdelay")
			}
			m.Faults[p[0]], m.Faults[p[1]] = fa, fb
		}
		if m.New && m.Exceed == "" && rapid.IntRange(0, 2).Draw(t, "follow") == 0 {
			for k := rapid.IntRange(1, 2).Draw(t, "nfollow"); k > 0; k-- {
				m.Follow = append(m.Follow, m.QoS) // same QoS: the fault plan is per packet type
			}
		}
		c.Msgs = append(c.Msgs, m)
		if m.Exceed != "" {
			break // the gateway gives up on this message; what follows is not judged
		}
	}
	return c
}

func runC16(c c16Case) (r vf.Result) {
	clCfg := clsim.Config{ClientID: "cl", ConnectTimeoutMs: 5000, RetryDelayMs: c.RetryMs, RetryCount: c.Retries, CleanSession: true, KeepAliveMs: 3600_000}
	gwCfg := gwsim.Config{RetryDelayMs: c.RetryMs, RetryCount: c.Retries}
	s, err := e2e.Start(clCfg, gwCfg)
	if err != nil {
		r.Fail("harness", "%v", err)
		return
	}
	defer s.Shutdown()
	for _, cl := range []clsim.Call{{API: "Connect"}, {API: "Subscribe", Topic: "t/known", QoS: 2}, {API: "Subscribe", Topic: "n/#", QoS: 2}} {
		cs := s.CL.Go(cl)
		if !s.WaitCall(cs, time.Minute) || cs.Err != nil {
			r.Fail("harness-setup", "%v -> %v", cl, cs.Err)
			return
		}
	}
	var cur *c16Msg
	seen := map[string]int{}
	delivered := map[string]bool{}
	var planMu sync.Mutex // several retransmission timers may fire at the same instant
	s.Plan = func(dir string, p snref.Pkt, raw []byte) e2e.Fate {
		planMu.Lock()
		defer planMu.Unlock()
		if cur == nil {
			return e2e.Fate{Copies: 1}
		}
		name := snref.TypeName(p.Type)
		f, ok := cur.Faults[name]
		if !ok {
			return e2e.Fate{Copies: 1}
		}
		k := seen[name]
		seen[name]++
		if k < f.Lose {
			return e2e.Fate{Copies: 0}
		}
		if !delivered[name] {
			delivered[name] = true
			return e2e.Fate{Copies: 1 + f.Dup, DelayMs: f.DelayMs}
		}
		return e2e.Fate{Copies: 1}
	}
	d := time.Duration(c.RetryMs) * time.Millisecond
	for i := range c.Msgs {
		m := &c.Msgs[i]
		cur, seen, delivered = m, map[string]int{}, map[string]bool{}
		topic := "t/known"
		if m.New {
			topic = fmt.Sprintf("n/%d", i)
		}
		payload := []byte(fmt.Sprintf("m%d", i))
		wireFrom := len(s.Wire)
		mid, ok := s.Broker.Publish(topic, payload, m.QoS, false)
		if !ok {
			r.Fail("harness-broker", "no subscription matches %q", topic)
			return
		}
		type one struct {
			mid     uint16
			payload []byte
		}
		batch := []one{{mid, payload}}
		for k, q := range m.Follow {
			pl := []byte(fmt.Sprintf("m%d-f%d", i, k))
			fm, _ := s.Broker.Publish(topic, pl, q, false)
			batch = append(batch, one{fm, pl})
			r.Label("messages-back-to-back-on-new-topic")
		}
		// long enough for every step to use its whole budget, plus the observation window
		s.Advance(d*time.Duration(4*(int(c.Retries)+2)) + 30*time.Second)
		if m.Exceed != "" {
			s.Advance(10 * d)
		}
		lossy := false
		for _, f := range m.Faults {
			if f.Lose > 0 || f.Dup > 0 {
				lossy = true
			}
		}
		if lossy {
			r.NonTrivial = true
		}
		if m.New {
			r.Label("register-step")
		}
		r.Label(fmt.Sprintf("qos=%d", m.QoS))
		desc := fmt.Sprintf("broker PUBLISH #%d (QoS %d, topic %q, mid %d), RetryCount %d, faults %v", i, m.QoS, topic, mid, c.Retries, m.Faults)
		wire := s.Wire[wireFrom:]
		// retransmissions repeat message ID and payload, with DUP where the type has it
		first := map[string]e2e.Wire{}
		count := map[string]int{}
		for _, w := range wire {
			if w.Dir != "G>C" {
				continue
			}
			name := snref.TypeName(w.SN.Type)
			if name != "REGISTER" && name != "PUBLISH" && name != "PUBREL" {
				continue
			}
			count[name]++
			key := fmt.Sprintf("%s/%d", name, w.SN.MsgID)
			f, again := first[key]
			if !again {
				first[key] = w
				if w.SN.Type == snref.PUBLISH && w.SN.DUP {
					r.Fail("first-transmission-with-dup", "%s: first PUBLISH to the client has DUP=1\n%s", desc, s.Dump(40))
					return
				}
				continue
			}
			if w.SN.MsgID != f.SN.MsgID || string(w.SN.Data) != string(f.SN.Data) || w.SN.TopicID != f.SN.TopicID || w.SN.TopicName != f.SN.TopicName {
				r.Fail("retransmission-differs/"+name, "%s: retransmitted %v differs from the original %v\n%s", desc, w.SN, f.SN, s.Dump(40))
				return
			}
			if w.SN.Type == snref.PUBLISH && !w.SN.DUP {
				r.Fail("retransmission-without-dup/PUBLISH", "%s: retransmitted PUBLISH has DUP=0\n%s", desc, s.Dump(40))
				return
			}
		}
		if m.Exceed != "" {
			r.Label("budget-exceeded:" + m.Exceed)
			if n := count[m.Exceed]; n != int(c.Retries)+1 {
				r.Fail(fmt.Sprintf("retry-budget/%s/sent=%d,want=%d", m.Exceed, min(n, 9), c.Retries+1), "%s: the gateway sent %s %d times, expected the original and %d retransmissions, then silence\n%s", desc, m.Exceed, n, c.Retries, s.Dump(40))
			}
			return
		}
		// within budget: delivered and acknowledged (every message of the batch)
		for _, b := range batch {
			mid, payload := b.mid, b.payload
			desc := fmt.Sprintf("%s; message %q (mid %d) of a batch of %d", desc, payload, mid, len(batch))
			runs := 0
			for _, dl := range s.CL.Deliveries {
				if string(dl.Payload) == string(payload) {
					runs++
					if dl.Topic != topic {
						r.Fail("delivered-under-wrong-topic", "%s: handler got topic %q", desc, dl.Topic)
						return
					}
				}
			}
			if m.QoS == 1 {
				acks := 0
				for _, a := range s.Broker.Pubacks {
					if a == mid {
						acks++
					}
				}
				if runs < 1 {
					r.Fail("qos1-not-delivered", "%s: the handler never ran\n%s", desc, s.Dump(50))
					return
				}
				if acks < 1 {
					r.Fail("qos1-broker-pubacks=0", "%s: the broker received no PUBACK (handler ran %d times)\n%s", desc, runs, s.Dump(50))
					return
				}
				if acks > 1 {
					// The statement asks for the PUBACK to reach the broker, not for it to come only once
					// (an MQTT server ignores a PUBACK it does not wait for): counted, not judged. The
					// defect which used to cause it (a retry timer firing at the instant of progress
					// retried the new step, i.e. the PUBACK towards the broker) is judged by C19.
					r.Label("extra-broker-puback")
					vf.Count("c16_extra_broker_pubacks", acks-1)
				}
			} else {
				if st := s.Broker.Out[mid]; st != "done" {
					r.Fail("qos2-incomplete-at-broker/"+st, "%s: at the broker the exchange stopped waiting for %q (handler ran %d times)\n%s", desc, st, runs, s.Dump(50))
					return
				}
				if runs != 1 {
					kind := fmt.Sprintf("qos2-handler-runs=%d", min(runs, 2))
					// a copy of the PUBLISH that reaches the client after it has already handled the PUBREL
					// opens a second exchange there; a further PUBREL (retransmitted because the PUBCOMP
					// was lost, or itself duplicated) then runs the handler again
					if m.Faults["PUBLISH"].Dup > 0 && (m.Faults["PUBCOMP"].Lose > 0 || m.Faults["PUBREL"].Dup > 0) {
						kind += "/publish-copy-after-release"
					}
					r.Fail(kind, "%s: the handler ran %d times\n%s", desc, runs, s.Dump(50))
					return
				}
			}
		}
	}
	return
}

func TestC16(t *testing.T) {
	vf.Check(t, vf.Prop[c16Case]{
		ID: "C16", Name: "delivery-under-loss", Bubble: true,
		Rule:        "real gateway session and real subscribed client (handler counting invocations) over an in-memory link with a fault plan, conforming broker model; RetryCount 1-4, RetryDelay 1/3/10 s; 1-3 broker publishes (QoS 1, QoS 2; on a known topic and on a new topic so that the REGISTER/REGACK step is part of the flow - in a third of those 1-2 further messages follow on the same new topic at the same instant, before the REGISTER can have been acknowledged); for every gateway step (REGISTER/REGACK, PUBLISH/PUBACK, PUBLISH/PUBREC, PUBREL/PUBCOMP) the plan loses a request transmissions and b acknowledgements with a+b <= RetryCount (within budget), or all RetryCount+1 of one step (budget exceeded), and duplicates the first delivered datagram 0-2 times with delays from 0 to 25 s (so a duplicate may arrive after the exchange finished). Non-trivial = at least one loss or duplication in the plan; distinct by case.",
		Assumptions: []string{"'lost at most RetryCount times in a row' is read per gateway step: request and acknowledgement losses of one step together stay within RetryCount", "after a step whose budget is exceeded the rest of the history is not judged; 'then silence' is observed for 10 further retry delays"},
		Gen:         genC16,
		Run:         runC16,
	})
}
