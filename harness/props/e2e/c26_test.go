package e2e

import (
	"bytes"
	"fmt"
	"strings"
	"testing"
	"time"

	"pgregory.net/rapid"

	"verif/harness/clsim"
	"verif/harness/e2e"
	"verif/harness/gwsim"
	"verif/harness/mqttref"
	"verif/harness/vf"
)

// ---- C26: bisquitt client and gateway interoperate for any API usage ------------------------------

type c26Step struct {
	Call *clsim.Call `json:"call,omitempty"`
	// Inject: broker publishes (a burst when more than one) "from another client".
	Inject []c26Msg `json:"inject,omitempty"`
	// DuringSleep: messages injected while the Sleep call of this step is blocked (after DelayMs).
	DuringSleep []c26Msg `json:"during_sleep,omitempty"`
	DelayMs     int      `json:"delay_ms,omitempty"`
	// Refuse: the broker refuses this Subscribe (SUBACK 0x80); the call must report it.
	Refuse bool `json:"refuse,omitempty"`
}

type c26Msg struct {
	Topic string `json:"topic"`
	QoS   byte   `json:"qos"`
	Tag   int    `json:"tag"`
}

type c26Case struct {
	Auth  bool      `json:"auth"`
	Will  bool      `json:"will"`
	Steps []c26Step `json:"steps"`
}

var c26Predef = map[string]map[uint16]string{"*": {1: "p/one", 2: "p/two"}, "cl": {2: "p/cl-two"}}

func genC26(t *rapid.T) c26Case {
	c := c26Case{Auth: rapid.Bool().Draw(t, "auth"), Will: rapid.Bool().Draw(t, "will")}
	registered := map[string]bool{}
	var subs []string
	live := map[string]bool{}
	tag := 0
	msg := func() c26Msg {
		tag++
		topic := rapid.SampledFrom([]string{"t/a", "t/b", "ab", "p/one", "p/cl-two", "w/x", "w/y", "w/x", "w/z/deep", "nomatch/1"}).Draw(t, "mtopic")
		return c26Msg{Topic: topic, QoS: byte(rapid.IntRange(0, 2).Draw(t, "mqos")), Tag: tag}
	}
	burst := func() []c26Msg {
		n := rapid.SampledFrom([]int{1, 1, 2, 3, 5}).Draw(t, "burst")
		var ms []c26Msg
		for i := 0; i < n; i++ {
			ms = append(ms, msg())
		}
		return ms
	}
	n := rapid.IntRange(3, 25).Draw(t, "n")
	asleep := false
	for i := 0; i < n; i++ {
		if asleep {
			// from the awake state a client can sleep again, reconnect or disconnect
			switch rapid.IntRange(0, 4).Draw(t, "afterwake") {
			case 4:
				// an awake client may disconnect as well (MQTT-SN 1.2, 6.14): the last call of the script
				c.Steps = append(c.Steps, c26Step{Call: &clsim.Call{API: "Disconnect"}})
				return c
			case 0:
				st := c26Step{Call: &clsim.Call{API: "Sleep", DurMs: rapid.SampledFrom([]int{1000, 2000, 4000}).Draw(t, "sleep_ms")}, DelayMs: 300}
				if rapid.Bool().Draw(t, "during") {
					st.DuringSleep = burst()
				}
				c.Steps = append(c.Steps, st)
			default:
				c.Steps = append(c.Steps, c26Step{Call: &clsim.Call{API: "Connect"}})
				asleep = false
			}
			continue
		}
		switch rapid.SampledFrom([]string{"register", "subscribe", "subscribe", "publish", "publish", "unsubscribe", "ping", "sleep", "inject", "inject", "inject"}).Draw(t, "kind") {
		case "register":
			name := rapid.SampledFrom([]string{"t/a", "t/b", "r/1", "r/2", "p/one", "p/two"}).Draw(t, "rname")
			registered[name] = true
			c.Steps = append(c.Steps, c26Step{Call: &clsim.Call{API: "Register", Topic: name}})
		case "subscribe":
			qos := uint8(rapid.IntRange(0, 2).Draw(t, "sqos"))
			if rapid.IntRange(0, 4).Draw(t, "predefsub") == 0 {
				c.Steps = append(c.Steps, c26Step{Call: &clsim.Call{API: "SubscribePredefined", TopicID: uint16(rapid.IntRange(1, 2).Draw(t, "spid")), QoS: qos}})
			} else {
				f := rapid.SampledFrom([]string{"t/a", "t/b", "w/#", "w/+", "ab", "#", "w/x", "w/y", "p/one", "p/cl-two", "p/two"}).Draw(t, "filter")
				if !live[f] && rapid.IntRange(0, 4).Draw(t, "refused") == 0 {
					// the broker refuses this subscription; nothing else may change because of it
					c.Steps = append(c.Steps, c26Step{Call: &clsim.Call{API: "Subscribe", Topic: f, QoS: qos}, Refuse: true})
					continue
				}
				live[f] = true
				subs = append(subs, f)
				if !strings.ContainsAny(f, "+#") && len(f) != 2 {
					registered[f] = true
				}
				c.Steps = append(c.Steps, c26Step{Call: &clsim.Call{API: "Subscribe", Topic: f, QoS: qos}})
			}
		case "unsubscribe":
			if len(subs) == 0 {
				continue
			}
			u := rapid.SampledFrom(subs).Draw(t, "unsub")
			delete(live, u)
			c.Steps = append(c.Steps, c26Step{Call: &clsim.Call{API: "Unsubscribe", Topic: u}})
		case "publish":
			qos := uint8(rapid.IntRange(0, 3).Draw(t, "pqos"))
			tag++
			payload := []byte(fmt.Sprintf("c%03d", tag))
			switch rapid.IntRange(0, 2).Draw(t, "pform") {
			case 0:
				c.Steps = append(c.Steps, c26Step{Call: &clsim.Call{API: "Publish", Topic: "ab", QoS: qos, Retain: rapid.Bool().Draw(t, "retain"), Payload: payload}})
			case 1:
				c.Steps = append(c.Steps, c26Step{Call: &clsim.Call{API: "PublishPredefined", TopicID: uint16(rapid.IntRange(1, 2).Draw(t, "ppid")), QoS: qos, Payload: payload}})
			default:
				var names []string
				for n := range registered {
					names = append(names, n)
				}
				if len(names) == 0 || qos == 3 {
					continue
				}
				c.Steps = append(c.Steps, c26Step{Call: &clsim.Call{API: "Publish", Topic: rapid.SampledFrom(sorted(names)).Draw(t, "pname"), QoS: qos, Payload: payload}})
			}
		case "ping":
			c.Steps = append(c.Steps, c26Step{Call: &clsim.Call{API: "Ping"}})
		case "sleep":
			st := c26Step{Call: &clsim.Call{API: "Sleep", DurMs: rapid.SampledFrom([]int{500, 1000, 1500, 2000, 4000}).Draw(t, "sleep_ms")}, DelayMs: rapid.SampledFrom([]int{100, 400}).Draw(t, "delay")}
			if rapid.Bool().Draw(t, "during") {
				st.DuringSleep = burst()
			}
			c.Steps = append(c.Steps, st)
			asleep = true
		case "inject":
			c.Steps = append(c.Steps, c26Step{Inject: burst()})
		}
	}
	if asleep {
		c.Steps = append(c.Steps, c26Step{Call: &clsim.Call{API: "Connect"}})
	}
	if rapid.Bool().Draw(t, "disconnect") {
		c.Steps = append(c.Steps, c26Step{Call: &clsim.Call{API: "Disconnect"}})
	}
	return c
}

func sorted(s []string) []string {
	for i := 1; i < len(s); i++ {
		for j := i; j > 0 && s[j] < s[j-1]; j-- {
			s[j], s[j-1] = s[j-1], s[j]
		}
	}
	return s
}

func tagPayload(tag int) []byte { return []byte(fmt.Sprintf("b%03d", tag)) }

func runC26(c c26Case) (r vf.Result) {
	clCfg := clsim.Config{ClientID: "cl", ConnectTimeoutMs: 5000, RetryDelayMs: 10000, RetryCount: 2, CleanSession: true, KeepAliveMs: 60000, Predef: c26Predef}
	gwCfg := gwsim.Config{Auth: c.Auth, RetryDelayMs: 10000, RetryCount: 2, Predef: c26Predef}
	if c.Auth {
		clCfg.User, clCfg.Password = "alice", []byte("secret")
	}
	if c.Will {
		clCfg.WillTopic, clCfg.WillPayload, clCfg.WillQoS = "w/ill", []byte("gone"), 1
	}
	s, err := e2e.Start(clCfg, gwCfg)
	if err != nil {
		r.Fail("harness", "%v", err)
		return
	}
	defer s.Shutdown()
	cs := s.CL.Go(clsim.Call{API: "Connect"})
	if !s.WaitCall(cs, time.Minute) || cs.Err != nil {
		r.Fail("call-fails/Connect", "Connect() -> returned=%v err=%v\n%s", cs.Returned, cs.Err, s.Dump(30))
		return
	}
	// model
	subs := map[string]bool{}      // live subscriptions, by the key the client files the callback under
	expect := map[int]string{}     // tag -> topic of injected messages that must reach a handler
	kinds := map[string]bool{}
	sleeps := 0
	var wantPublished []e2e.Message
	inject := func(ms []c26Msg) {
		for _, m := range ms {
			matches := false
			for f := range subs {
				if mqttref.Match(f, m.Topic) {
					matches = true
				}
			}
			if _, delivered := s.Broker.Publish(m.Topic, tagPayload(m.Tag), m.QoS, false); delivered != matches {
				r.Fail("broker-subscriptions-differ", "broker model delivers=%v for %q but the client's live subscriptions %v match=%v\n%s", delivered, m.Topic, keys(subs), matches, s.Dump(30))
				return
			}
			if matches {
				expect[m.Tag] = m.Topic
			}
		}
		if len(ms) >= 2 {
			r.Label("burst")
			for _, m := range ms {
				if strings.HasPrefix(m.Topic, "w/") {
					r.NonTrivial = true
					r.Label("burst-on-new-topic")
				}
			}
		}
	}
	for _, st := range c.Steps {
		if len(r.Violations) > 0 {
			return
		}
		if st.Call == nil {
			inject(st.Inject)
			s.Advance(50 * time.Millisecond)
			continue
		}
		cl := *st.Call
		kinds[cl.API] = true
		if st.Refuse {
			s.Broker.Refuse = map[string]bool{cl.Topic: true}
			r.Label("refused-subscription")
		}
		cs := s.CL.Go(cl)
		if cl.API == "Sleep" {
			sleeps++
			s.Advance(time.Duration(st.DelayMs) * time.Millisecond)
			inject(st.DuringSleep)
		}
		max := time.Duration(cl.DurMs)*time.Millisecond + 3*time.Minute
		if !s.WaitCall(cs, max) {
			r.Fail("call-never-returns/"+cl.API, "%v has not returned after %v\n%s", cl, max, s.Dump(40))
			return
		}
		if st.Refuse {
			s.Broker.Refuse = nil
			if cs.Err == nil {
				r.Fail("refused-subscribe-returns-nil", "%v returned nil although the broker refused the subscription (SUBACK 0x80)\n%s", cl, s.Dump(40))
				return
			}
			s.Advance(20 * time.Millisecond)
			continue
		}
		if cs.Err != nil {
			kind := "call-fails/" + cl.API
			if cl.API == "Sleep" {
				kind += fmt.Sprintf("/nth=%d", min(sleeps, 2))
				if cl.DurMs < 1000 {
					kind += "/sub-second"
				}
			}
			r.Fail(kind, "%v returned %v\n%s", cl, cs.Err, s.Dump(40))
			return
		}
		s.Advance(20 * time.Millisecond)
		// documented effect at the broker
		switch cl.API {
		case "Subscribe":
			subs[cl.Topic] = true
			if q, ok := s.Broker.Subs[cl.Topic]; !ok || q != cl.QoS {
				r.Fail("subscription-not-at-broker", "after Subscribe(%q, qos=%d) the broker holds %v\n%s", cl.Topic, cl.QoS, s.Broker.Subs, s.Dump(30))
				return
			}
		case "SubscribePredefined":
			name, _ := lookup(c26Predef, "cl", cl.TopicID)
			subs[name] = true
			if q, ok := s.Broker.Subs[name]; !ok || q != cl.QoS {
				r.Fail("subscription-not-at-broker/predefined", "after SubscribePredefined(%d) (= %q for this client) the broker holds %v\n%s", cl.TopicID, name, s.Broker.Subs, s.Dump(30))
				return
			}
		case "Unsubscribe":
			delete(subs, cl.Topic)
			if _, ok := s.Broker.Subs[cl.Topic]; ok {
				r.Fail("unsubscribe-not-at-broker", "after Unsubscribe(%q) the broker still holds %v", cl.Topic, s.Broker.Subs)
				return
			}
		case "Publish", "PublishPredefined":
			topic := cl.Topic
			if cl.API == "PublishPredefined" {
				topic, _ = lookup(c26Predef, "cl", cl.TopicID)
			}
			q := cl.QoS
			if q == 3 {
				q = 0
			}
			wantPublished = append(wantPublished, e2e.Message{Topic: topic, Payload: cl.Payload, QoS: q, Retain: cl.Retain})
			found := 0
			for _, m := range s.Broker.Received {
				if bytes.Equal(m.Payload, cl.Payload) {
					found++
					if m.Topic != topic || m.QoS != q || m.Retain != cl.Retain {
						r.Fail("publish-arrives-changed/"+cl.API, "%v arrived at the broker as topic %q qos %d retain %v (expected topic %q qos %d)\n%s", cl, m.Topic, m.QoS, m.Retain, topic, q, s.Dump(30))
						return
					}
				}
			}
			if found != 1 {
				r.Fail(fmt.Sprintf("publish-arrives-%d-times/%s", found, cl.API), "%v arrived at the broker %d times\n%s", cl, found, s.Dump(30))
				return
			}
		case "Disconnect":
			if !s.Broker.Disconnect {
				r.Fail("disconnect-not-at-broker", "Disconnect() returned nil but the broker got no MQTT DISCONNECT\n%s", s.Dump(30))
				return
			}
		}
	}
	if len(r.Violations) > 0 {
		return
	}
	// every injected message that matched a live subscription reached a handler exactly once
	s.Advance(500 * time.Millisecond)
	runs := map[string]int{}
	for _, d := range s.CL.Deliveries {
		runs[string(d.Payload)]++
		for tag, topic := range expect {
			if string(d.Payload) == string(tagPayload(tag)) && d.Topic != topic {
				r.Fail("handler-gets-other-topic", "message %q published on %q reached the handler as topic %q\n%s", d.Payload, topic, d.Topic, s.Dump(40))
				return
			}
		}
	}
	disconnected := kinds["Disconnect"]
	for tag, topic := range expect {
		n := runs[string(tagPayload(tag))]
		if n == 1 || (disconnected && n == 0) {
			continue
		}
		where := "active"
		_ = where
		r.Fail(fmt.Sprintf("handler-runs=%d", min(n, 2)), "broker message %q on %q matched a live subscription but the handler ran %d times (live subscriptions %v)\n%s", tagPayload(tag), topic, n, keys(subs), s.Dump(60))
		return
	}
	if len(s.Broker.Invalid) > 0 {
		r.Label("invalid-mqtt-seen(C24)")
	}
	if sleeps > 0 {
		r.NonTrivial = true
		r.Label("sleep-cycle")
	}
	if sleeps > 1 {
		r.Label("second-sleep-cycle")
	}
	if len(kinds) >= 3 {
		r.NonTrivial = true
	}
	return
}

func keys(m map[string]bool) []string {
	var k []string
	for x := range m {
		k = append(k, x)
	}
	return sorted(k)
}

func lookup(m map[string]map[uint16]string, client string, id uint16) (string, bool) {
	if e, ok := m[client]; ok {
		if n, ok := e[id]; ok {
			return n, true
		}
	}
	if e, ok := m["*"]; ok {
		if n, ok := e[id]; ok {
			return n, true
		}
	}
	return "", false
}

func TestC26(t *testing.T) {
	vf.Check(t, vf.Prop[c26Case]{
		ID: "C26", Name: "interop", Bubble: true, DeadlockIsViolation: true,
		Rule: "real client and real gateway session over a lossless in-memory link with a conforming model broker (which also plays other clients); auth on/off, will on/off; scripts of 3-25 steps: Register, Subscribe (plain, wildcard, short, predefined - by ID, and by the NAME of a predefined topic, visible or shadowed for this client -; QoS 0-2; a fifth of the subscriptions to filters not subscribed yet are refused by the broker), Publish / PublishPredefined (QoS -1..2, short / predefined / registered topics, retain), Unsubscribe, Ping, Sleep (0.5-4 s; a blocking call during which broker publishes are injected), further Sleeps from the awake state, Connect back to active, Disconnect; broker injections of single messages and bursts of 2-5 back-to-back messages on known, predefined, short and not-yet-registered topics under a wildcard (the same new topic several times in a burst, and different ones). Non-trivial = a script with a sleep cycle, a burst on an unregistered topic, or >= 3 different API kinds; distinct by case.",
		Assumptions: []string{"Publish to a plain name is preceded by Register/Subscribe of that name (the API documents the precondition); after Sleep returns the script continues with Sleep, Connect, Disconnect or nothing (the client is 'awake', not active)",
			"sleeps stay below RetryDelay so that the C11 known finding (retransmission copies in the wake-up flush) does not interfere",
			"oracle: every call returns nil (a Subscribe the broker refuses returns an error and changes nothing else); subscriptions and publishes are at the broker model exactly as requested; every injected message that matches a live subscription runs a handler exactly once, with the broker's topic"},
		Gen: genC26,
		Run: runC26,
	})
}
