package e2e

import (
	"bytes"
	"fmt"
	"testing"
	"time"
	"unicode/utf8"

	"pgregory.net/rapid"

	"github.com/energomonitor/bisquitt/topics"

	"verif/harness/clsim"
	"verif/harness/e2e"
	"verif/harness/gwsim"
	"verif/harness/mqttref"
	"verif/harness/vf"
)

// ---- C32: short-topic and predefined routing is consistent between client and gateway ------------

type c32Op struct {
	Kind string `json:"kind"` // pubpre pubshort subpre subshort pubtool subtool inject
	ID   uint16 `json:"id,omitempty"`
	Name string `json:"name,omitempty"`
	QoS  uint8  `json:"qos,omitempty"`
}

type c32Case struct {
	ClientID string                       `json:"client_id"`
	Predef   map[string]map[uint16]string `json:"predef"`
	Ops      []c32Op                      `json:"ops"`
}

var c32Names = []string{"p/one", "p/two", "p/three", "dev/any/data", "dev/000001/data"}

func genShort(t *rapid.T) string {
	for {
		b := []byte{rapid.Byte().Draw(t, "s0"), rapid.Byte().Draw(t, "s1")}
		if rapid.Bool().Draw(t, "ascii") {
			b = []byte{byte(rapid.IntRange(0x21, 0x7e).Draw(t, "a0")), byte(rapid.IntRange(0x21, 0x7e).Draw(t, "a1"))}
		}
		s := string(b)
		// names the gateway must refuse as invalid MQTT (C24) carry no expectation here
		if !utf8.ValidString(s) || bytes.ContainsAny(b, "+#\x00") {
			continue
		}
		return s
	}
}

func genC32(t *rapid.T) c32Case {
	// the client with entries of its own: short, 23 octets (the longest ID of the MQTT-SN text), longer
	// ones (bisquitt does not limit the length), non-ASCII
	own := rapid.SampledFrom([]string{"client1", "client1", "client1", "c2345678901234567890123", "c23456789012345678901234", "sensor-node-building-7-floor-3", "čidlo-1"}).Draw(t, "own")
	c := c32Case{ClientID: own, Predef: map[string]map[uint16]string{}}
	if rapid.IntRange(0, 2).Draw(t, "cid") == 0 {
		c.ClientID = "other"
	}
	second := "client2"
	if len(own) > 23 && rapid.Bool().Draw(t, "prefix_key") {
		second = own[:23] // another client whose ID is a prefix of this one
	}
	for _, cl := range []string{"*", own, second} {
		n := rapid.IntRange(0, 4).Draw(t, "n")
		if cl != second && n == 0 && rapid.Bool().Draw(t, "nonempty") {
			n = 2
		}
		for i := 0; i < n; i++ {
			if c.Predef[cl] == nil {
				c.Predef[cl] = map[uint16]string{}
			}
			id := uint16(rapid.IntRange(1, 4).Draw(t, "id"))
			if cl != "*" && len(c.Predef["*"]) > 0 && rapid.Bool().Draw(t, "overlap") {
				// an ID which '*' defines as well (in ascending order, so that the draw is reproducible)
				var ids []uint16
				for k := uint16(1); k <= 4; k++ {
					if _, ok := c.Predef["*"][k]; ok {
						ids = append(ids, k)
					}
				}
				id = rapid.SampledFrom(ids).Draw(t, "star_id")
			}
			c.Predef[cl][id] = rapid.SampledFrom(c32Names).Draw(t, "name")
		}
	}
	if rapid.IntRange(0, 5).Draw(t, "repo_example") == 0 {
		c.Predef = map[string]map[uint16]string{own: {1: "dev/000001/data", 2: "p/two"}, "*": {1: "dev/any/data", 2: "p/one", 3: "p/three"}}
	}
	n := rapid.IntRange(2, 10).Draw(t, "nops")
	var subNames []string // names the client will hold a subscription for (exact ones)
	wild := false
	for i := 0; i < n; i++ {
		op := c32Op{Kind: rapid.SampledFrom([]string{"pubpre", "pubshort", "subpre", "subshort", "pubtool", "subtool", "subwild", "inject", "inject", "inject"}).Draw(t, "kind"), QoS: uint8(rapid.IntRange(0, 2).Draw(t, "qos"))}
		switch op.Kind {
		case "pubpre", "subpre":
			op.ID = uint16(rapid.IntRange(1, 4).Draw(t, "opid"))
			if rapid.IntRange(0, 4).Draw(t, "defined_id") > 0 {
				// mostly an ID the client has a name for (an undefined one ends the session)
				var ids []uint16
				for k := uint16(1); k <= 4; k++ {
					_, o := c.Predef[c.ClientID][k]
					_, st := c.Predef["*"][k]
					if o && st {
						ids = append(ids, k, k) // shadowed ones twice
					} else if o || st {
						ids = append(ids, k)
					}
				}
				if len(ids) > 0 {
					op.ID = rapid.SampledFrom(ids).Draw(t, "defined_opid")
				}
			}
		case "pubshort", "subshort":
			op.Name = genShort(t)
		case "pubtool", "subtool":
			// (names of one octet are not short topic names: those have exactly two)
			op.Name = rapid.SampledFrom(append(c32Names, "plain/name", "a", "7")).Draw(t, "toolname")
		case "subwild":
			op.Name = rapid.SampledFrom([]string{"#", "p/#", "dev/+/data", "+"}).Draw(t, "filter")
			wild = true
		case "inject":
			switch {
			case len(subNames) > 0 && rapid.IntRange(0, 3).Draw(t, "injsub") > 0:
				op.Name = rapid.SampledFrom(subNames).Draw(t, "injsubname")
			case !wild && rapid.Bool().Draw(t, "injshort"):
				op.Name = genShort(t)
			default:
				op.Name = rapid.SampledFrom(append(c32Names, "a", "7")).Draw(t, "injname")
			}
		}
		switch op.Kind {
		case "subshort", "subtool":
			subNames = append(subNames, op.Name)
		case "subpre":
			if nm, ok := c.Predef[c.ClientID][op.ID]; ok {
				subNames = append(subNames, nm)
			} else if nm, ok := c.Predef["*"][op.ID]; ok {
				subNames = append(subNames, nm)
			}
		}
		c.Ops = append(c.Ops, op)
	}
	return c
}

func runC32(c c32Case) (r vf.Result) {
	clCfg := clsim.Config{ClientID: c.ClientID, ConnectTimeoutMs: 5000, RetryDelayMs: 10000, RetryCount: 1, CleanSession: true, KeepAliveMs: 600_000, Predef: c.Predef}
	gwCfg := gwsim.Config{RetryDelayMs: 10000, RetryCount: 1, Predef: c.Predef}
	s, err := e2e.Start(clCfg, gwCfg)
	if err != nil {
		r.Fail("harness", "%v", err)
		return
	}
	defer s.Shutdown()
	cs := s.CL.Go(clsim.Call{API: "Connect"})
	if !s.WaitCall(cs, time.Minute) || cs.Err != nil {
		r.Fail("harness-connect", "%v", cs.Err)
		return
	}
	// the client's own view of the configuration (what bisquitt-pub / bisquitt-sub consult)
	pt := topics.PredefinedTopics{}
	for cl, m := range c.Predef {
		for id, n := range m {
			pt.Add(cl, n, id)
		}
	}
	call := func(cl clsim.Call) (*clsim.CallState, bool) {
		cs := s.CL.Go(cl)
		if !s.WaitCall(cs, time.Minute) {
			r.Fail("call-never-returns/"+cl.API, "%v\n%s", cl, s.Dump(30))
			return cs, false
		}
		s.Advance(20 * time.Millisecond)
		return cs, true
	}
	subscribed := map[string]bool{} // names the client holds a subscription for
	tag := 0
	for _, op := range c.Ops {
		tag++
		payload := []byte(fmt.Sprintf("x%03d", tag))
		meant, defined := "", true
		_, own := c.Predef[c.ClientID][op.ID]
		_, star := c.Predef["*"][op.ID]
		if own && star && (op.Kind == "pubpre" || op.Kind == "subpre") {
			r.NonTrivial = true
		}
		switch op.Kind {
		case "pubpre", "subpre":
			meant, defined = pt.GetTopicName(c.ClientID, op.ID)
		case "pubshort", "subshort":
			meant = op.Name
		case "pubtool", "subtool", "subwild":
			meant = op.Name
		}
		switch op.Kind {
		case "pubpre", "pubshort", "pubtool":
			var cl clsim.Call
			switch op.Kind {
			case "pubpre":
				cl = clsim.Call{API: "PublishPredefined", TopicID: op.ID, QoS: op.QoS, Payload: payload}
			case "pubshort":
				cl = clsim.Call{API: "Publish", Topic: op.Name, QoS: op.QoS, Payload: payload}
			case "pubtool": // cmd/bisquitt-pub: predefined if the configuration has the name, else register + publish
				if id, ok := pt.GetTopicID(c.ClientID, op.Name); ok {
					cl = clsim.Call{API: "PublishPredefined", TopicID: id, QoS: op.QoS, Payload: payload}
					if _, o := c.Predef[c.ClientID][id]; o {
						if _, st := c.Predef["*"][id]; st {
							r.NonTrivial = true
						}
					}
				} else {
					if _, ok := call(clsim.Call{API: "Register", Topic: op.Name}); !ok {
						return
					}
					cl = clsim.Call{API: "Publish", Topic: op.Name, QoS: op.QoS, Payload: payload}
				}
			}
			cs, ok := call(cl)
			if !ok {
				return
			}
			if !defined {
				// the client used an ID it has no name for: the gateway must not invent one
				for _, m := range s.Broker.Received {
					if bytes.Equal(m.Payload, payload) {
						r.Fail("undefined-predefined-id-published", "client %q has no name for predefined ID %d but the broker received the message on %q", c.ClientID, op.ID, m.Topic)
						return
					}
				}
				return // the session is over (unknown topic ID)
			}
			if cs.Err != nil {
				r.Fail("call-fails/"+op.Kind, "%v -> %v\n%s", cl, cs.Err, s.Dump(30))
				return
			}
			found := false
			for _, m := range s.Broker.Received {
				if bytes.Equal(m.Payload, payload) {
					found = true
					if m.Topic != meant {
						r.Fail("publish-routed-to-other-topic/"+op.Kind, "client %q published %v meaning topic %q, the broker received it on %q (configuration %v)\n%s", c.ClientID, cl, meant, m.Topic, c.Predef, s.Dump(30))
						return
					}
				}
			}
			if !found {
				r.Fail("publish-lost/"+op.Kind, "%v (topic %q) never reached the broker\n%s", cl, meant, s.Dump(30))
				return
			}
		case "subpre", "subshort", "subtool", "subwild":
			var cl clsim.Call
			switch op.Kind {
			case "subwild":
				cl = clsim.Call{API: "Subscribe", Topic: op.Name, QoS: op.QoS}
			case "subpre":
				cl = clsim.Call{API: "SubscribePredefined", TopicID: op.ID, QoS: op.QoS}
			case "subshort":
				cl = clsim.Call{API: "Subscribe", Topic: op.Name, QoS: op.QoS}
			case "subtool": // cmd/bisquitt-sub
				if id, ok := pt.GetTopicID(c.ClientID, op.Name); ok {
					cl = clsim.Call{API: "SubscribePredefined", TopicID: id, QoS: op.QoS}
				} else {
					cl = clsim.Call{API: "Subscribe", Topic: op.Name, QoS: op.QoS}
				}
			}
			before := map[string]byte{}
			for f, q := range s.Broker.Subs {
				before[f] = q
			}
			cs, ok := call(cl)
			if !ok {
				return
			}
			if !defined {
				return
			}
			if cs.Err != nil {
				r.Fail("call-fails/"+op.Kind, "%v -> %v\n%s", cl, cs.Err, s.Dump(30))
				return
			}
			if _, ok := s.Broker.Subs[meant]; !ok {
				r.Fail("subscription-routed-to-other-topic/"+op.Kind, "client %q subscribed with %v meaning %q, the broker holds %v (configuration %v)\n%s", c.ClientID, cl, meant, s.Broker.Subs, c.Predef, s.Dump(30))
				return
			}
			subscribed[meant] = true
		case "inject":
			want := 0 // one handler per filter held which matches
			for f := range subscribed {
				if mqttref.Match(f, op.Name) {
					want++
				}
			}
			if want == 0 {
				continue
			}
			if id, ok := pt.GetTopicID(c.ClientID, op.Name); ok {
				if _, o := c.Predef[c.ClientID][id]; o {
					if _, st := c.Predef["*"][id]; st {
						r.NonTrivial = true
					}
				}
			}
			if _, ok := s.Broker.Publish(op.Name, payload, op.QoS, false); !ok {
				continue
			}
			s.Advance(50 * time.Millisecond)
			n := 0
			for _, d := range s.CL.Deliveries {
				if bytes.Equal(d.Payload, payload) {
					n++
					if d.Topic != op.Name {
						r.Fail("delivery-under-other-name", "broker published on %q, the client's handler was told %q (client %q, configuration %v)\n%s", op.Name, d.Topic, c.ClientID, c.Predef, s.Dump(30))
						return
					}
				}
			}
			// C27: the callback of a matching subscription runs; with several matching filters bisquitt's
			// client runs one of them
			if n < 1 || n > want {
				r.Fail(fmt.Sprintf("delivery-count=%d", min(n, 2)), "broker message on %q ran %d handlers, the client holds %d matching subscriptions (%v)\n%s", op.Name, n, want, subscribed, s.Dump(30))
				return
			}
			r.Label("delivered")
		}
		r.Label(op.Kind)
	}
	return
}

func TestC32(t *testing.T) {
	vf.Check(t, vf.Prop[c32Case]{
		ID: "C32", Name: "routing-consistent", Bubble: true,
		Rule: "real client and real gateway sharing one predefined-topic configuration (entries for '*', the client's own ID (7, 23, 24 or 30 octets long, or non-ASCII), and a second client - sometimes one whose ID is the first 23 octets of the first - over IDs 1-4 and 5 names, with overlaps and shadowing; sometimes the repository's topics.yaml shape), client ID inside or outside the configuration; 2-10 operations: PublishPredefined(id), Publish(2-octet name over all byte values that are valid MQTT), SubscribePredefined(id), Subscribe(2-octet name), Subscribe(wildcard filter: #, p/#, dev/+/data, +), the decision logic of bisquitt-pub / bisquitt-sub (GetTopicID(name), then the predefined call, else register/subscribe by name), and broker publishes on predefined names, short names and names of a single octet that are subscribed (exactly or by a wildcard; three in four on a name subscribed earlier). Non-trivial = an operation, or a broker publish the gateway forwards, that uses an ID defined for both the client and '*'; distinct by case.",
		Assumptions: []string{"2-octet names containing '+', '#', NUL or invalid UTF-8 are not generated (C24 requires the gateway to refuse them)", "oracle: the broker-side topic equals the name the client meant (its own GetTopicName / the short name / the name given to the tool logic); the handler's topic equals the broker's, and at least one handler runs, at most one per matching filter the client holds"},
		Gen:         genC32,
		Run:         runC32,
	})
}
