package gw

import (
	"fmt"
	"testing"
	"testing/synctest"

	"pgregory.net/rapid"

	"verif/harness/gwgen"
	"verif/harness/gwsim"
	"verif/harness/mqttref"
	"verif/harness/snref"
	"verif/harness/vf"
)

// ---- C06 (gateway side): exchanges started by each side never interfere ------------------------

// An exchange is opened by one side and then advanced by acknowledgement
// steps. The script fixes only the order of "open exchange i" / "advance
// exchange i" operations; what each operation sends is computed from what the
// scripted peers received so far (message IDs and topic IDs chosen by the
// gateway are not known in advance).
type c06Exchange struct {
	Kind string `json:"kind"` // cpub1 cpub2 csub bpub1 bpub1new bpub2 bpub2new bpub0new
	Mid  uint16 `json:"mid"`
}

type c06Case struct {
	Exchanges []c06Exchange `json:"exchanges"`
	Ops       []int         `json:"ops"` // each entry: index of the exchange to open (first occurrence) or to advance
	Auth      bool          `json:"auth"`
}

var c06Steps = map[string]int{"cpub1": 2, "cpub2": 4, "csub": 2, "bpub1": 2, "bpub1new": 3, "bpub2": 4, "bpub2new": 5, "bpub0new": 2}

func c06Client(kind string) bool { return kind[0] == 'c' }

func genC06(t *rapid.T) c06Case {
	c := c06Case{Auth: rapid.Bool().Draw(t, "auth")}
	n := rapid.IntRange(2, 5).Draw(t, "n")
	pool := []uint16{1, 2, 0xffff, 0xfffe}
	usedC, usedB := map[uint16]bool{}, map[uint16]bool{}
	for i := 0; i < n; i++ {
		kind := rapid.SampledFrom([]string{"cpub1", "cpub2", "csub", "bpub1", "bpub1new", "bpub2", "bpub2new", "bpub0new"}).Draw(t, "kind")
		// the gateway takes its own REGISTER IDs from 0xFFFF downwards on the broker's behalf: a
		// broker ID up there would be a same-side collision, which is out of scope
		p, used := []uint16{1, 2, 3, 4}, usedB
		if c06Client(kind) {
			p, used = pool, usedC
		}
		mid := rapid.SampledFrom(p).Draw(t, "mid")
		if kind == "bpub0new" {
			mid = 0
		} else {
			// exchanges of the same direction must not share an ID (their initiator chooses distinct ones)
			for tries := 0; used[mid] && tries < 8; tries++ {
				mid = p[(int(mid)+tries+1)%len(p)]
			}
			if used[mid] {
				continue
			}
			used[mid] = true
		}
		c.Exchanges = append(c.Exchanges, c06Exchange{Kind: kind, Mid: mid})
	}
	// interleave: every exchange contributes steps[kind] operations, order drawn
	remaining := make([]int, len(c.Exchanges))
	total := 0
	for i, x := range c.Exchanges {
		remaining[i] = c06Steps[x.Kind]
		total += remaining[i]
	}
	for total > 0 {
		var cand []int
		for i, r := range remaining {
			if r > 0 {
				cand = append(cand, i)
			}
		}
		i := rapid.SampledFrom(cand).Draw(t, "op")
		c.Ops = append(c.Ops, i)
		remaining[i]--
		total--
	}
	return c
}

type c06State struct {
	step     int    // operations applied so far
	topicID  uint16 // topic ID from the gateway's REGISTER / SUBACK
	regMid   uint16 // message ID of the gateway's REGISTER
	name     string
	failed   string
	done     bool
	openedAt int
}

func TestC06GW(t *testing.T) {
	vf.Check(t, vf.Prop[c06Case]{
		ID: "C06", Name: "gateway-exchanges-independent", Bubble: true,
		Rule: "2-5 exchanges on one connected session, client-initiated (PUBLISH QoS 1, PUBLISH QoS 2, SUBSCRIBE) and broker-initiated (PUBLISH QoS 0 on a new topic, QoS 1 and QoS 2 on known and on new topics, i.e. with a REGISTER step), message IDs from the pool {1,2,0xFFFE,0xFFFF} (the gateway picks its own REGISTER IDs from 0xFFFF downwards) so that IDs of opposite directions coincide; the order in which the exchanges are opened and each of their acknowledgement steps is played is drawn; lossless link, cooperative peers, no time passes. Non-trivial = two exchanges of opposite directions that share a message ID are open at the same time; distinct by case.",
		Assumptions: []string{"two exchanges started by the same side never share a message ID (their initiator chooses the IDs)", "an exchange completes normally = every acknowledgement step produces the translated packet on the other side with the right message ID and topic ID"},
		Gen:         genC06,
		Run:         runC06,
	})
}

func runC06(c c06Case) (r vf.Result) {
	cfg := gwsim.Config{Auth: c.Auth, RetryDelayMs: 10000, RetryCount: 2}
	s := gwsim.Start(cfg, nil, "c06")
	var events []gwsim.Event
	take := func() []gwsim.Event { // new gateway output since the last call
		s.Settle()
		tr := s.Trace()
		ev := tr.Events[len(events):]
		events = tr.Events
		return ev
	}
	connack := byte(0)
	s.SetAuto(gwsim.Auto{Connack: &connack})
	for _, st := range connectSteps(cfg, "cl", 60) {
		s.Apply(0, st)
	}
	// known topic for broker publishes: short name "ab"; subscriptions are irrelevant to the gateway
	take()
	s.SetAuto(gwsim.Auto{})
	states := make([]c06State, len(c.Exchanges))
	for i := range states {
		states[i].name = fmt.Sprintf("n/%d", i)
	}
	find := func(ev []gwsim.Event, dir string, pred func(e gwsim.Event) bool) *gwsim.Event {
		for i := range ev {
			if ev[i].Dir == dir && pred(ev[i]) {
				return &ev[i]
			}
		}
		return nil
	}
	snIs := func(typ byte, mid uint16) func(gwsim.Event) bool {
		return func(e gwsim.Event) bool { return e.SN != nil && e.SN.Type == typ && e.SN.MsgID == mid }
	}
	mqIs := func(typ byte, mid uint16) func(gwsim.Event) bool {
		return func(e gwsim.Event) bool { return e.MQ != nil && e.MQ.Type == typ && e.MQ.MsgID == mid }
	}
	open := map[int]bool{}
	for opi, xi := range c.Ops {
		x := c.Exchanges[xi]
		st := &states[xi]
		if st.failed != "" {
			continue
		}
		// non-triviality: an exchange of the opposite direction with the same ID is open now
		for j := range open {
			y := c.Exchanges[j]
			same := y.Mid == x.Mid || (y.Kind == "bpub0new" && states[j].regMid == x.Mid) || (x.Kind == "bpub0new" && st.regMid == y.Mid && st.regMid != 0)
			if j != xi && c06Client(y.Kind) != c06Client(x.Kind) && same {
				r.NonTrivial = true
			}
		}
		expect := func(what string, e *gwsim.Event) bool {
			if e == nil {
				st.failed = fmt.Sprintf("step %d of %s(mid=%d): expected %s, it did not come", st.step, x.Kind, x.Mid, what)
				return false
			}
			return true
		}
		payload := []byte(fmt.Sprintf("x%d", xi))
		short := snref.ShortID("ab")
		switch x.Kind {
		case "cpub1":
			switch st.step {
			case 0:
				s.ClientSend(gwgen.Publish(snref.TITShort, short, 1, x.Mid, payload), false)
				expect("MQTT PUBLISH", find(take(), gwsim.GB, mqIs(mqttref.PUBLISH, x.Mid)))
			case 1:
				s.BrokerSend(mqttref.Pkt{Type: mqttref.PUBACK, MsgID: x.Mid}, false)
				e := find(take(), gwsim.GC, snIs(snref.PUBACK, x.Mid))
				if expect("PUBACK to the client", e) && (e.SN.TopicID != short || e.SN.RC != 0) {
					st.failed = fmt.Sprintf("PUBACK carries topic ID %d rc %d, want %d rc 0", e.SN.TopicID, e.SN.RC, short)
				}
			}
		case "cpub2":
			switch st.step {
			case 0:
				s.ClientSend(gwgen.Publish(snref.TITShort, short, 2, x.Mid, payload), false)
				expect("MQTT PUBLISH", find(take(), gwsim.GB, mqIs(mqttref.PUBLISH, x.Mid)))
			case 1:
				s.BrokerSend(mqttref.Pkt{Type: mqttref.PUBREC, MsgID: x.Mid}, false)
				expect("PUBREC to the client", find(take(), gwsim.GC, snIs(snref.PUBREC, x.Mid)))
			case 2:
				s.ClientSend(snref.Pkt{Type: snref.PUBREL, MsgID: x.Mid}, false)
				expect("MQTT PUBREL", find(take(), gwsim.GB, mqIs(mqttref.PUBREL, x.Mid)))
			case 3:
				s.BrokerSend(mqttref.Pkt{Type: mqttref.PUBCOMP, MsgID: x.Mid}, false)
				expect("PUBCOMP to the client", find(take(), gwsim.GC, snIs(snref.PUBCOMP, x.Mid)))
			}
		case "csub":
			switch st.step {
			case 0:
				s.ClientSend(gwgen.SubscribeName(fmt.Sprintf("s/%d", xi), 1, x.Mid), false)
				expect("MQTT SUBSCRIBE", find(take(), gwsim.GB, mqIs(mqttref.SUBSCRIBE, x.Mid)))
			case 1:
				s.BrokerSend(mqttref.Pkt{Type: mqttref.SUBACK, MsgID: x.Mid, Codes: []byte{1}}, false)
				e := find(take(), gwsim.GC, snIs(snref.SUBACK, x.Mid))
				if expect("SUBACK to the client", e) && (e.SN.RC != 0 || e.SN.TopicID == 0) {
					st.failed = fmt.Sprintf("SUBACK rc=%d topic ID %d, want rc 0 and a topic ID", e.SN.RC, e.SN.TopicID)
				}
			}
		case "bpub1", "bpub2", "bpub1new", "bpub2new", "bpub0new":
			qos := byte(1)
			if x.Kind == "bpub2" || x.Kind == "bpub2new" {
				qos = 2
			}
			if x.Kind == "bpub0new" {
				qos = 0
			}
			isNew := x.Kind == "bpub1new" || x.Kind == "bpub2new" || x.Kind == "bpub0new"
			k := st.step
			if !isNew {
				k++ // known topic: no REGISTER step
			}
			pubIs := func(e gwsim.Event) bool {
				return e.SN != nil && e.SN.Type == snref.PUBLISH && string(e.SN.Data) == string(payload) && !e.SN.DUP
			}
			switch {
			case st.step == 0:
				topic := "ab"
				if isNew {
					topic = st.name
				}
				s.BrokerSend(gwgen.BPublish(topic, qos, x.Mid, payload, false, false), false)
				ev := take()
				if isNew {
					e := find(ev, gwsim.GC, func(e gwsim.Event) bool { return e.SN != nil && e.SN.Type == snref.REGISTER && e.SN.TopicName == st.name })
					if expect("REGISTER for the new topic", e) {
						st.topicID, st.regMid = e.SN.TopicID, e.SN.MsgID
					}
				} else {
					e := find(ev, gwsim.GC, pubIs)
					if expect("PUBLISH to the client", e) && e.SN.MsgID != x.Mid {
						st.failed = fmt.Sprintf("PUBLISH to the client carries message ID %d, broker used %d", e.SN.MsgID, x.Mid)
					}
				}
			case k == 1: // REGACK
				s.ClientSend(snref.Pkt{Type: snref.REGACK, TopicID: st.topicID, MsgID: st.regMid, RC: 0}, false)
				e := find(take(), gwsim.GC, pubIs)
				if expect("PUBLISH after the REGACK", e) && (e.SN.TopicID != st.topicID || (qos > 0 && e.SN.MsgID != x.Mid)) {
					st.failed = fmt.Sprintf("PUBLISH after REGACK has topic ID %d message ID %d, want %d / %d", e.SN.TopicID, e.SN.MsgID, st.topicID, x.Mid)
				}
			case k == 2 && qos == 1:
				tid := short
				if isNew {
					tid = st.topicID
				}
				s.ClientSend(snref.Pkt{Type: snref.PUBACK, TopicID: tid, MsgID: x.Mid, RC: 0}, false)
				expect("MQTT PUBACK", find(take(), gwsim.GB, mqIs(mqttref.PUBACK, x.Mid)))
			case k == 2 && qos == 2:
				s.ClientSend(snref.Pkt{Type: snref.PUBREC, MsgID: x.Mid}, false)
				expect("MQTT PUBREC", find(take(), gwsim.GB, mqIs(mqttref.PUBREC, x.Mid)))
			case k == 3:
				s.BrokerSend(mqttref.Pkt{Type: mqttref.PUBREL, MsgID: x.Mid}, false)
				expect("PUBREL to the client", find(take(), gwsim.GC, snIs(snref.PUBREL, x.Mid)))
			case k == 4:
				s.ClientSend(snref.Pkt{Type: snref.PUBCOMP, MsgID: x.Mid}, false)
				expect("MQTT PUBCOMP", find(take(), gwsim.GB, mqIs(mqttref.PUBCOMP, x.Mid)))
			}
		}
		st.step++
		open[xi] = true
		if st.step >= c06Steps[x.Kind] || st.failed != "" {
			st.done = true
			delete(open, xi)
		}
		_ = opi
	}
	tr := s.Finish()
	for i, st := range states {
		x := c.Exchanges[i]
		if st.failed != "" {
			others := ""
			for j, y := range c.Exchanges {
				if j != i {
					others += fmt.Sprintf(" %s(mid=%d)", y.Kind, y.Mid)
				}
			}
			dir := "client"
			if !c06Client(x.Kind) {
				dir = "broker"
			}
			r.Fail("exchange-broken/"+dir+"-initiated/"+x.Kind, "%s-initiated exchange %s(mid=%d) did not complete: %s; concurrent exchanges:%s\n%s", dir, x.Kind, x.Mid, st.failed, others, tr.Dump(40))
			break
		}
	}
	synctest.Wait()
	return
}
