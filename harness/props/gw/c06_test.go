package gw

import (
	"fmt"
	"runtime"
	"testing"
	"testing/synctest"
	"time"

	"pgregory.net/rapid"

	"verif/harness/gwgen"
	"verif/harness/gwsim"
	"verif/harness/mqttref"
	"verif/harness/snref"
	"verif/harness/vf"
)

// ---- C06 (gateway side): exchanges started by each side never interfere ------------------------

// An exchange is opened by one side and then advanced by acknowledgement
// steps. The script fixes only the order of "open exchange i" / "advance
// exchange i" operations; what each operation sends is computed from what the
// scripted peers received so far (message IDs and topic IDs chosen by the
// gateway are not known in advance).
type c06Exchange struct {
	Kind string `json:"kind"` // cpub1 cpub2 csub bpub1 bpub1new bpub2 bpub2new bpub0new
	Mid  uint16 `json:"mid"`
}

type c06Case struct {
	Exchanges []c06Exchange `json:"exchanges"`
	Ops       []int         `json:"ops"` // each entry: index of the exchange to open (first occurrence) or to advance
	Auth      bool          `json:"auth"`
	// Reuse, when set: exchange 0 runs to completion first; after GapMs exchange 1, which uses the
	// same message ID, is played with StepDelayMs[k] before its k-th step, and before some steps a
	// late duplicate of an acknowledgement which the client sent in exchange 0 arrives (DupAt[k] =
	// index+1 into the client's acknowledgements of exchange 0, 0 = none).
	Reuse *c06Reuse `json:"reuse,omitempty"`
}

type c06Reuse struct {
	RetryMs     int   `json:"retry_ms"`
	GapMs       int   `json:"gap_ms"`
	StepDelayMs []int `json:"step_delay_ms"`
	DupAt       []int `json:"dup_at"`
	// Immediate (both exchanges broker-initiated): the broker sends the second PUBLISH the moment
	// the gateway has written the last acknowledgement of the first one (a broker may reuse a packet
	// identifier as soon as it has the PUBACK / PUBCOMP), so the gateway's two loops run concurrently.
	Immediate bool `json:"immediate,omitempty"`
	// YieldInWrite: how often the writing goroutine yields the processor inside that write.
	YieldInWrite int `json:"yield_in_write,omitempty"`
	// FirstSteps, when > 0 (client-initiated first exchange only): only that many steps of exchange 0
	// are played - the broker never answers, and the client uses the message ID again (a
	// retransmission, or after giving up): exchange 0 is superseded, not finished.
	FirstSteps int `json:"first_steps,omitempty"`
	// FirstRefused (first exchange a SUBSCRIBE): the broker refuses it (SUBACK 0x80); it is finished.
	FirstRefused bool `json:"first_refused,omitempty"`
}

var c06Steps = map[string]int{"cpub1": 2, "cpub2": 4, "csub": 2, "bpub1": 2, "bpub1new": 3, "bpub2": 4, "bpub2new": 5, "bpub0new": 2}

func c06Client(kind string) bool { return kind[0] == 'c' }

func genC06(t *rapid.T) c06Case {
	c := c06Case{Auth: rapid.Bool().Draw(t, "auth")}
	n := rapid.IntRange(2, 5).Draw(t, "n")
	pool := []uint16{1, 2, 0xffff, 0xfffe}
	usedC, usedB := map[uint16]bool{}, map[uint16]bool{}
	for i := 0; i < n; i++ {
		kind := rapid.SampledFrom([]string{"cpub1", "cpub2", "csub", "bpub1", "bpub1new", "bpub2", "bpub2new", "bpub0new"}).Draw(t, "kind")
		// the gateway takes its own REGISTER IDs from 0xFFFF downwards on the broker's behalf: a
		// broker ID up there would be a same-side collision, which is out of scope
		p, used := []uint16{1, 2, 3, 4}, usedB
		if c06Client(kind) {
			p, used = pool, usedC
		}
		mid := rapid.SampledFrom(p).Draw(t, "mid")
		if kind == "bpub0new" {
			mid = 0
		} else {
			// exchanges of the same direction must not share an ID (their initiator chooses distinct ones)
			for tries := 0; used[mid] && tries < 8; tries++ {
				mid = p[(int(mid)+tries+1)%len(p)]
			}
			if used[mid] {
				continue
			}
			used[mid] = true
		}
		c.Exchanges = append(c.Exchanges, c06Exchange{Kind: kind, Mid: mid})
	}
	// interleave: every exchange contributes steps[kind] operations, order drawn
	remaining := make([]int, len(c.Exchanges))
	total := 0
	for i, x := range c.Exchanges {
		remaining[i] = c06Steps[x.Kind]
		total += remaining[i]
	}
	for total > 0 {
		var cand []int
		for i, r := range remaining {
			if r > 0 {
				cand = append(cand, i)
			}
		}
		i := rapid.SampledFrom(cand).Draw(t, "op")
		c.Ops = append(c.Ops, i)
		remaining[i]--
		total--
	}
	return c
}

type c06State struct {
	step     int    // operations applied so far
	topicID  uint16 // topic ID from the gateway's REGISTER / SUBACK
	regMid   uint16 // message ID of the gateway's REGISTER
	name     string
	failed   string
	done     bool
	openedAt int
	// preopened: the opening PUBLISH of this broker-initiated exchange was sent already (by the broker
	// model, at the very moment it got the last acknowledgement of the previous exchange)
	preopened bool
}

func TestC06GW(t *testing.T) {
	vf.Check(t, vf.Prop[c06Case]{
		ID: "C06", Name: "gateway-exchanges-independent", Bubble: true,
		Rule: "2-5 exchanges on one connected session, client-initiated (PUBLISH QoS 1, PUBLISH QoS 2, SUBSCRIBE) and broker-initiated (PUBLISH QoS 0 on a new topic, QoS 1 and QoS 2 on known and on new topics, i.e. with a REGISTER step), message IDs from the pool {1,2,0xFFFE,0xFFFF} (the gateway picks its own REGISTER IDs from 0xFFFF downwards) so that IDs of opposite directions coincide; the order in which the exchanges are opened and each of their acknowledgement steps is played is drawn; lossless link, cooperative peers, no time passes. Non-trivial = two exchanges of opposite directions that share a message ID are open at the same time; distinct by case.",
		Assumptions: []string{"two exchanges started by the same side never share a message ID (their initiator chooses the IDs)", "an exchange completes normally = every acknowledgement step produces the translated packet on the other side with the right message ID and topic ID"},
		Gen:         genC06,
		Run:         runC06,
	})
}

func runC06(c c06Case) (r vf.Result) {
	cfg := gwsim.Config{Auth: c.Auth, RetryDelayMs: 10000, RetryCount: 2}
	if c.Reuse != nil {
		cfg.RetryDelayMs = c.Reuse.RetryMs
	}
	s := gwsim.Start(cfg, nil, "c06")
	var events []gwsim.Event
	take := func() []gwsim.Event { // new gateway output since the last call
		s.Settle()
		tr := s.Trace()
		ev := tr.Events[len(events):]
		events = tr.Events
		return ev
	}
	connack := byte(0)
	s.SetAuto(gwsim.Auto{Connack: &connack})
	for _, st := range connectSteps(cfg, "cl", 60) {
		s.Apply(0, st)
	}
	// known topic for broker publishes: short name "ab"; subscriptions are irrelevant to the gateway
	take()
	s.SetAuto(gwsim.Auto{})
	states := make([]c06State, len(c.Exchanges))
	for i := range states {
		states[i].name = fmt.Sprintf("n/%d", i)
	}
	find := func(ev []gwsim.Event, dir string, pred func(e gwsim.Event) bool) *gwsim.Event {
		for i := range ev {
			if ev[i].Dir == dir && pred(ev[i]) {
				return &ev[i]
			}
		}
		return nil
	}
	snIs := func(typ byte, mid uint16) func(gwsim.Event) bool {
		return func(e gwsim.Event) bool { return e.SN != nil && e.SN.Type == typ && e.SN.MsgID == mid }
	}
	mqIs := func(typ byte, mid uint16) func(gwsim.Event) bool {
		return func(e gwsim.Event) bool { return e.MQ != nil && e.MQ.Type == typ && e.MQ.MsgID == mid }
	}
	open := map[int]bool{}
	var sentByClient []snref.Pkt // acknowledgements the scripted client sent, in order (late duplicates are drawn from them)
	clientSend := func(p snref.Pkt) {
		if p.Type != snref.PUBLISH && p.Type != snref.SUBSCRIBE {
			sentByClient = append(sentByClient, p)
		}
		s.ClientSend(p, false)
	}
	advance := func(opi, xi int) {
		x := c.Exchanges[xi]
		st := &states[xi]
		if st.failed != "" {
			return
		}
		// non-triviality: an exchange of the opposite direction with the same ID is open now
		for j := range open {
			y := c.Exchanges[j]
			same := y.Mid == x.Mid || (y.Kind == "bpub0new" && states[j].regMid == x.Mid) || (x.Kind == "bpub0new" && st.regMid == y.Mid && st.regMid != 0)
			if j != xi && c06Client(y.Kind) != c06Client(x.Kind) && same {
				r.NonTrivial = true
			}
		}
		expect := func(what string, e *gwsim.Event) bool {
			if e == nil {
				st.failed = fmt.Sprintf("step %d of %s(mid=%d): expected %s, it did not come", st.step, x.Kind, x.Mid, what)
				return false
			}
			return true
		}
		payload := []byte(fmt.Sprintf("x%d", xi))
		short := snref.ShortID("ab")
		switch x.Kind {
		case "cpub1":
			switch st.step {
			case 0:
				s.ClientSend(gwgen.Publish(snref.TITShort, short, 1, x.Mid, payload), false)
				expect("MQTT PUBLISH", find(take(), gwsim.GB, mqIs(mqttref.PUBLISH, x.Mid)))
			case 1:
				s.BrokerSend(mqttref.Pkt{Type: mqttref.PUBACK, MsgID: x.Mid}, false)
				e := find(take(), gwsim.GC, snIs(snref.PUBACK, x.Mid))
				if expect("PUBACK to the client", e) && (e.SN.TopicID != short || e.SN.RC != 0) {
					st.failed = fmt.Sprintf("PUBACK carries topic ID %d rc %d, want %d rc 0", e.SN.TopicID, e.SN.RC, short)
				}
			}
		case "cpub2":
			switch st.step {
			case 0:
				s.ClientSend(gwgen.Publish(snref.TITShort, short, 2, x.Mid, payload), false)
				expect("MQTT PUBLISH", find(take(), gwsim.GB, mqIs(mqttref.PUBLISH, x.Mid)))
			case 1:
				s.BrokerSend(mqttref.Pkt{Type: mqttref.PUBREC, MsgID: x.Mid}, false)
				expect("PUBREC to the client", find(take(), gwsim.GC, snIs(snref.PUBREC, x.Mid)))
			case 2:
				clientSend(snref.Pkt{Type: snref.PUBREL, MsgID: x.Mid})
				expect("MQTT PUBREL", find(take(), gwsim.GB, mqIs(mqttref.PUBREL, x.Mid)))
			case 3:
				s.BrokerSend(mqttref.Pkt{Type: mqttref.PUBCOMP, MsgID: x.Mid}, false)
				expect("PUBCOMP to the client", find(take(), gwsim.GC, snIs(snref.PUBCOMP, x.Mid)))
			}
		case "csub":
			switch st.step {
			case 0:
				s.ClientSend(gwgen.SubscribeName(fmt.Sprintf("s/%d", xi), 1, x.Mid), false)
				expect("MQTT SUBSCRIBE", find(take(), gwsim.GB, mqIs(mqttref.SUBSCRIBE, x.Mid)))
			case 1:
				if c.Reuse != nil && c.Reuse.FirstRefused && xi == 0 {
					s.BrokerSend(mqttref.Pkt{Type: mqttref.SUBACK, MsgID: x.Mid, Codes: []byte{0x80}}, false)
					e := find(take(), gwsim.GC, snIs(snref.SUBACK, x.Mid))
					if expect("SUBACK to the client", e) && e.SN.RC == 0 {
						st.failed = "refused SUBACK translated as accepted"
					}
					break
				}
				s.BrokerSend(mqttref.Pkt{Type: mqttref.SUBACK, MsgID: x.Mid, Codes: []byte{1}}, false)
				e := find(take(), gwsim.GC, snIs(snref.SUBACK, x.Mid))
				if expect("SUBACK to the client", e) && (e.SN.RC != 0 || e.SN.TopicID == 0) {
					st.failed = fmt.Sprintf("SUBACK rc=%d topic ID %d, want rc 0 and a topic ID", e.SN.RC, e.SN.TopicID)
				}
			}
		case "bpub1", "bpub2", "bpub1new", "bpub2new", "bpub0new":
			qos := byte(1)
			if x.Kind == "bpub2" || x.Kind == "bpub2new" {
				qos = 2
			}
			if x.Kind == "bpub0new" {
				qos = 0
			}
			isNew := x.Kind == "bpub1new" || x.Kind == "bpub2new" || x.Kind == "bpub0new"
			k := st.step
			if !isNew {
				k++ // known topic: no REGISTER step
			}
			pubIs := func(e gwsim.Event) bool {
				return e.SN != nil && e.SN.Type == snref.PUBLISH && string(e.SN.Data) == string(payload) && !e.SN.DUP
			}
			switch {
			case st.step == 0:
				topic := "ab"
				if isNew {
					topic = st.name
				}
				if !st.preopened {
					s.BrokerSend(gwgen.BPublish(topic, qos, x.Mid, payload, false, false), false)
				}
				ev := take()
				if st.preopened {
					ev = s.Trace().Events // the gateway may have answered while the previous exchange's last step was observed
				}
				if isNew {
					e := find(ev, gwsim.GC, func(e gwsim.Event) bool { return e.SN != nil && e.SN.Type == snref.REGISTER && e.SN.TopicName == st.name })
					if expect("REGISTER for the new topic", e) {
						st.topicID, st.regMid = e.SN.TopicID, e.SN.MsgID
					}
				} else {
					e := find(ev, gwsim.GC, pubIs)
					if expect("PUBLISH to the client", e) && e.SN.MsgID != x.Mid {
						st.failed = fmt.Sprintf("PUBLISH to the client carries message ID %d, broker used %d", e.SN.MsgID, x.Mid)
					}
				}
			case k == 1: // REGACK
				clientSend(snref.Pkt{Type: snref.REGACK, TopicID: st.topicID, MsgID: st.regMid, RC: 0})
				e := find(take(), gwsim.GC, pubIs)
				if expect("PUBLISH after the REGACK", e) && (e.SN.TopicID != st.topicID || (qos > 0 && e.SN.MsgID != x.Mid)) {
					st.failed = fmt.Sprintf("PUBLISH after REGACK has topic ID %d message ID %d, want %d / %d", e.SN.TopicID, e.SN.MsgID, st.topicID, x.Mid)
				}
			case k == 2 && qos == 1:
				tid := short
				if isNew {
					tid = st.topicID
				}
				clientSend(snref.Pkt{Type: snref.PUBACK, TopicID: tid, MsgID: x.Mid, RC: 0})
				expect("MQTT PUBACK", find(take(), gwsim.GB, mqIs(mqttref.PUBACK, x.Mid)))
			case k == 2 && qos == 2:
				clientSend(snref.Pkt{Type: snref.PUBREC, MsgID: x.Mid})
				expect("MQTT PUBREC", find(take(), gwsim.GB, mqIs(mqttref.PUBREC, x.Mid)))
			case k == 3:
				s.BrokerSend(mqttref.Pkt{Type: mqttref.PUBREL, MsgID: x.Mid}, false)
				expect("PUBREL to the client", find(take(), gwsim.GC, snIs(snref.PUBREL, x.Mid)))
			case k == 4:
				clientSend(snref.Pkt{Type: snref.PUBCOMP, MsgID: x.Mid})
				expect("MQTT PUBCOMP", find(take(), gwsim.GB, mqIs(mqttref.PUBCOMP, x.Mid)))
			}
		}
		st.step++
		open[xi] = true
		if st.step >= c06Steps[x.Kind] || st.failed != "" {
			st.done = true
			delete(open, xi)
		}
		_ = opi
	}
	if c.Reuse != nil {
		runC06ReusePhase(c, s, states, advance, &sentByClient, &r)
	} else {
		for opi, xi := range c.Ops {
			advance(opi, xi)
		}
	}
	tr := s.Finish()
	for i, st := range states {
		x := c.Exchanges[i]
		if st.failed != "" {
			others := ""
			for j, y := range c.Exchanges {
				if j != i {
					others += fmt.Sprintf(" %s(mid=%d)", y.Kind, y.Mid)
				}
			}
			dir := "client"
			if !c06Client(x.Kind) {
				dir = "broker"
			}
			r.Fail("exchange-broken/"+dir+"-initiated/"+x.Kind, "%s-initiated exchange %s(mid=%d) did not complete: %s; concurrent exchanges:%s\n%s", dir, x.Kind, x.Mid, st.failed, others, tr.Dump(40))
			break
		}
	}
	synctest.Wait()
	return
}


// ---- C06 (gateway side), second part: an earlier, finished exchange used the same message ID ----

// c06Awaited gives the type of the next acknowledgement which an exchange of this kind takes from
// the client at or after its step k (0 = none, or the exchange is not open yet). A late duplicate of
// that type could not be told from the exchange's own acknowledgement.
func c06Awaited(kind string, k int, opened bool) byte {
	var steps []byte // per step: the client acknowledgement it sends, 0 for steps of the broker
	switch kind {
	case "bpub1":
		steps = []byte{0, snref.PUBACK}
	case "bpub1new":
		steps = []byte{0, snref.REGACK, snref.PUBACK}
	case "bpub2":
		steps = []byte{0, snref.PUBREC, 0, snref.PUBCOMP}
	case "bpub2new":
		steps = []byte{0, snref.REGACK, snref.PUBREC, 0, snref.PUBCOMP}
	default:
		return 0
	}
	if k == 0 && !opened {
		return 0
	}
	for i := k; i < len(steps); i++ {
		if steps[i] != 0 {
			return steps[i]
		}
	}
	return 0
}

func runC06ReusePhase(c c06Case, s *gwsim.Session, states []c06State, advance func(opi, xi int), sent *[]snref.Pkt, r *vf.Result) {
	ru := c.Reuse
	if ru.Immediate {
		x1, x2 := c.Exchanges[0], c.Exchanges[1]
		last := byte(0x40) // PUBACK
		if x1.Kind == "bpub2" || x1.Kind == "bpub2new" {
			last = 0x70 // PUBCOMP
		}
		qos2 := byte(1)
		if x2.Kind == "bpub2" || x2.Kind == "bpub2new" {
			qos2 = 2
		}
		topic := "ab"
		if x2.Kind == "bpub1new" || x2.Kind == "bpub2new" {
			topic = states[1].name
		}
		fired := false
		s.MQ.OnWrite = func(b []byte) {
			if !fired && len(b) == 4 && b[0] == last && b[1] == 2 && uint16(b[2])<<8|uint16(b[3]) == x1.Mid {
				fired = true
				states[1].preopened = true
				s.BrokerSend(gwgen.BPublish(topic, qos2, x2.Mid, []byte("x1"), false, false), false)
				// the gateway's write returns a little later than the broker reacts (a write is a
				// system call: the writer may well lose the CPU in it)
				for i := 0; i < ru.YieldInWrite; i++ {
					runtime.Gosched()
				}
			}
		}
		defer func() { s.MQ.OnWrite = nil }()
		r.Label("identifier-reused-at-once")
	}
	n1 := c06Steps[c.Exchanges[0].Kind]
	if ru.FirstSteps > 0 && ru.FirstSteps < n1 {
		n1 = ru.FirstSteps
		r.Label("first-exchange-superseded")
	}
	if ru.FirstRefused {
		r.Label("first-subscribe-refused")
	}
	for k := 0; k < n1; k++ {
		advance(k, 0)
	}
	if states[0].failed != "" {
		return // reported by the caller
	}
	acks := append([]snref.Pkt(nil), (*sent)...)
	s.Advance(time.Duration(ru.GapMs) * time.Millisecond)
	x := c.Exchanges[1]
	for k := 0; k < c06Steps[x.Kind]; k++ {
		if k < len(ru.DupAt) && ru.DupAt[k] > 0 && ru.DupAt[k] <= len(acks) {
			d := acks[ru.DupAt[k]-1]
			// a late duplicate which is of the very type the new exchange is waiting for cannot be told
			// from its own acknowledgement: not sent
			if d.Type != c06Awaited(x.Kind, k, states[1].preopened) {
				s.ClientSend(d, false)
				s.Settle()
				r.Label("late-duplicate-of-earlier-ack")
			}
		}
		if k < len(ru.StepDelayMs) && ru.StepDelayMs[k] > 0 {
			s.Advance(time.Duration(ru.StepDelayMs[k]) * time.Millisecond)
		}
		advance(100+k, 1)
	}
	r.NonTrivial = true
}

func genC06Reuse(t *rapid.T) c06Case {
	c := c06Case{Auth: rapid.Bool().Draw(t, "auth")}
	kinds := []string{"cpub1", "cpub2", "csub", "bpub1", "bpub1new", "bpub2", "bpub2new"}
	k1 := rapid.SampledFrom(kinds).Draw(t, "first")
	k2 := rapid.SampledFrom(kinds).Draw(t, "second")
	mid := rapid.SampledFrom([]uint16{1, 2, 7, 0xfffe}).Draw(t, "mid")
	c.Exchanges = []c06Exchange{{Kind: k1, Mid: mid}, {Kind: k2, Mid: mid}}
	ru := &c06Reuse{RetryMs: rapid.SampledFrom([]int{1000, 4000}).Draw(t, "retry_ms")}
	rd := ru.RetryMs
	// the second exchange opens GapMs after the first one finished, and all its steps happen within
	// 0.85 x RetryDelay of its opening: none of its own timers fires, the first one's leftovers may
	ru.GapMs = rd * rapid.SampledFrom([]int{0, 1, 30, 60, 90, 99, 101, 150}).Draw(t, "gap_pct") / 100
	budget := rd * 85 / 100
	n := c06Steps[k2]
	for k := 0; k < n; k++ {
		d := 0
		if k > 0 {
			d = rd * rapid.SampledFrom([]int{0, 0, 5, 20, 45}).Draw(t, "delay_pct") / 100
			if d > budget {
				d = budget
			}
			budget -= d
		}
		ru.StepDelayMs = append(ru.StepDelayMs, d)
		ru.DupAt = append(ru.DupAt, rapid.IntRange(0, 3).Draw(t, "dup"))
	}
	if c06Client(k1) && rapid.IntRange(0, 2).Draw(t, "superseded") == 0 {
		ru.FirstSteps = rapid.IntRange(1, c06Steps[k1]-1).Draw(t, "first_steps")
	} else if k1 == "csub" {
		ru.FirstRefused = rapid.Bool().Draw(t, "first_refused")
	}
	if !c06Client(k1) && !c06Client(k2) && rapid.Bool().Draw(t, "immediate") {
		ru.Immediate, ru.GapMs = true, 0
		ru.YieldInWrite = rapid.SampledFrom([]int{0, 1, 3, 10}).Draw(t, "yield")
	}
	c.Reuse = ru
	return c
}

func TestC06Reuse(t *testing.T) {
	vf.Check(t, vf.Prop[c06Case]{
		ID: "C06", Name: "gateway-message-id-reused", Bubble: true,
		Rule: "one exchange (client PUBLISH QoS 1/2, SUBSCRIBE, broker PUBLISH QoS 1/2 on a known or a new topic) runs to completion (a SUBSCRIBE: granted or refused) or, in a third of the client-initiated cases, is left unanswered by the broker after 1..n-1 of its steps (superseded: the client retransmits, or gives up and uses the ID again); 0-1.5 RetryDelay later a second exchange of any of these kinds uses the same message ID; its steps are spread over at most 0.85 RetryDelay after its opening (so none of its own timers fires, while whatever the first exchange left armed does), and before some steps a late duplicate of an acknowledgement the client sent in the first exchange arrives (UDP may duplicate and delay), unless it is of the very type the second exchange is waiting for. When both exchanges are broker-initiated, in half of the cases the broker sends the second PUBLISH at the very moment the gateway writes the last acknowledgement of the first (a broker may reuse a packet identifier as soon as it has the PUBACK / PUBCOMP). RetryDelay 1 s / 4 s, virtual time. Every case is non-trivial; distinct by case.",
		Assumptions: []string{"oracle: the second exchange completes normally, every step translated with the right message ID and topic ID", "only the client side duplicates (datagrams); the broker connection is a byte stream"},
		Gen:         genC06Reuse,
		Run:         runC06,
	})
}
