package gw

import (
	"fmt"
	"testing"

	"pgregory.net/rapid"

	"verif/harness/gwgen"
	"verif/harness/gwsim"
	"verif/harness/snref"
	"verif/harness/vf"
)

// ---- C10: half-open connect exchanges are reaped --------------------------------

type c10Case struct {
	Auth      bool  `json:"auth"`
	Will      bool  `json:"will"`
	Cut       int   `json:"cut"`      // how many packets of the exchange are sent (>= 1: the CONNECT)
	GapsMs    []int `json:"gaps_ms"`  // delay before each packet after the first
	Supersede int   `json:"supersede_ms"` // >0: a second CONNECT (restarting the exchange) this long after the last packet
	Cut2      int   `json:"cut2"`
	Shuffle   bool  `json:"shuffle"` // send the follow-up packets in reverse order (ill-formed exchange)
	// Refused: "keepalive0" / "protocol" = after everything else a CONNECT which the gateway refuses
	// at once (it opens no exchange) arrives RefusedMs later, while the half-open exchange is pending.
	Refused   string `json:"refused,omitempty"`
	RefusedMs int    `json:"refused_ms,omitempty"`
	// Stalled: the broker has accepted the connection but does not read: the gateway's writes to it block.
	Stalled bool `json:"stalled,omitempty"`
}

func c10Exchange(auth, will bool) []snref.Pkt {
	seq := []snref.Pkt{gwgen.Connect("cl", 60, will, true)}
	if auth {
		seq = append(seq, gwgen.AuthPlain("u", []byte("p")))
	}
	if will {
		seq = append(seq, gwgen.WillTopic("w/t", 1, false), gwgen.WillMsg([]byte("bye")))
	}
	return seq
}

func c10Gen(t *rapid.T) c10Case {
	c := c10Case{Auth: rapid.Bool().Draw(t, "auth"), Will: rapid.Bool().Draw(t, "will")}
	n := len(c10Exchange(c.Auth, c.Will))
	c.Cut = rapid.IntRange(1, n).Draw(t, "cut")
	for i := 1; i < c.Cut; i++ {
		c.GapsMs = append(c.GapsMs, rapid.SampledFrom([]int{0, 1, 50, 99, 100, 101, 500, 1500}).Draw(t, "gap"))
	}
	if rapid.Bool().Draw(t, "supersede") {
		c.Supersede = rapid.SampledFrom([]int{1, 100, 1000, 2500, 4899, 4999}).Draw(t, "supersede_ms")
		c.Cut2 = rapid.IntRange(1, n).Draw(t, "cut2")
	}
	c.Shuffle = rapid.IntRange(0, 4).Draw(t, "shuffle") == 0
	if rapid.IntRange(0, 3).Draw(t, "refused_connect") == 0 {
		c.Refused = rapid.SampledFrom([]string{"keepalive0", "protocol"}).Draw(t, "refused")
		c.RefusedMs = rapid.SampledFrom([]int{0, 1, 100, 1000, 3000}).Draw(t, "refused_ms")
	}
	c.Stalled = rapid.IntRange(0, 4).Draw(t, "stalled") == 0
	return c
}

func c10Script(c c10Case) (gwsim.Script, int) {
	sc := gwsim.Script{Cfg: gwsim.Config{Auth: c.Auth, RetryDelayMs: 10000, RetryCount: 4}}
	seq := c10Exchange(c.Auth, c.Will)
	if c.Stalled {
		sc.Steps = append(sc.Steps, gwsim.Step{K: "mqstall"})
	}
	send := func(cut int, gaps []int) {
		pk := append([]snref.Pkt(nil), seq[:cut]...)
		if c.Shuffle && len(pk) > 2 {
			for i, j := 1, len(pk)-1; i < j; i, j = i+1, j-1 {
				pk[i], pk[j] = pk[j], pk[i]
			}
		}
		for i, p := range pk {
			if i > 0 && i-1 < len(gaps) && gaps[i-1] > 0 {
				sc.Steps = append(sc.Steps, gwgen.Adv(int64(gaps[i-1])))
			}
			sc.Steps = append(sc.Steps, gwgen.SN(p))
		}
	}
	send(c.Cut, c.GapsMs)
	lastConnect := 0
	if c.Supersede > 0 {
		sc.Steps = append(sc.Steps, gwgen.Adv(int64(c.Supersede)))
		lastConnect = len(sc.Steps)
		send(c.Cut2, nil)
	}
	if c.Refused != "" {
		if c.RefusedMs > 0 {
			sc.Steps = append(sc.Steps, gwgen.Adv(int64(c.RefusedMs)))
		}
		p := gwgen.Connect("cl", 0, false, true)
		if c.Refused == "protocol" {
			p = gwgen.Connect("cl", 60, false, true)
			p.ProtocolID = 2
		}
		sc.Steps = append(sc.Steps, gwgen.SN(p))
	}
	sc.TailMs = 9000
	return sc, lastConnect
}

func TestC10(t *testing.T) {
	vf.Check(t, vf.Prop[c10Case]{
		ID: "C10", Name: "half-open-reaped", Bubble: true,
		Rule: "connect exchanges (will x auth) cut after every prefix length, with drawn gaps between the packets (around the 100 ms poll), optionally superseded by a second CONNECT at a drawn time before the first timeout, optionally with the follow-up packets out of order, optionally followed by a CONNECT which the gateway refuses at once (zero keep-alive, protocol ID 2) while the exchange is pending; the broker never answers, and in a fifth of the cases does not even read (the gateway's writes to it block). All (variant, cut) combinations are also enumerated. Non-trivial = every case (each is a distinct half-open exchange); distinct by the case value.",
		Assumptions: []string{"t0 is the virtual time of the session's last CONNECT datagram (a refused one included: it may only make the bound later); bound = t0 + 5 s + 100 ms poll + 1 ms"},
		Exhaustive: func(tier string, yield func(c10Case)) {
			for _, auth := range []bool{false, true} {
				for _, will := range []bool{false, true} {
					n := len(c10Exchange(auth, will))
					for cut := 1; cut <= n; cut++ {
						yield(c10Case{Auth: auth, Will: will, Cut: cut, GapsMs: make([]int, cut)})
						for cut2 := 1; cut2 <= n; cut2++ {
							yield(c10Case{Auth: auth, Will: will, Cut: cut, GapsMs: make([]int, cut), Supersede: 2500, Cut2: cut2})
						}
					}
				}
			}
		},
		Gen: c10Gen,
		Run: func(c c10Case) (r vf.Result) {
			sc, lastConnect := c10Script(c)
			tr := gwsim.Run(sc)
			var t0 int64 = -1
			for _, e := range tr.Events {
				if e.Dir == gwsim.CG && e.SN != nil && e.SN.Type == snref.CONNECT && e.Step >= lastConnect {
					t0 = e.Ns
				}
			}
			if t0 < 0 {
				r.Fail("harness", "no CONNECT in trace")
				return
			}
			const bound = int64(5_000+100+1) * 1e6
			r.NonTrivial = true
			r.Label(fmt.Sprintf("auth=%v,will=%v,cut=%d", c.Auth, c.Will, c.Cut))
			if c.Supersede > 0 {
				r.Label("superseded")
			}
			if c.Refused != "" {
				r.Label("refused-connect-while-pending")
			}
			if c.Stalled {
				r.Label("broker-not-reading")
			}
			if !tr.Ended {
				r.Fail("not-reaped", "session still running %d ms after the last CONNECT\n%s", 9000, tr.Dump(30))
				return
			}
			if tr.EndNs > t0+bound {
				r.Fail("reaped-late", "session ended %.3f s after the last CONNECT (bound 5.101 s)\n%s", float64(tr.EndNs-t0)/1e9, tr.Dump(30))
			}
			if !tr.MQClosed || tr.MQCloseNs > t0+bound {
				r.Fail("broker-conn-open", "broker connection closed=%v at %+.3f s\n%s", tr.MQClosed, float64(tr.MQCloseNs-t0)/1e9, tr.Dump(30))
			}
			return
		},
	})
}
