package gw

import (
	"bytes"
	"fmt"
	"testing"
	"time"

	"pgregory.net/rapid"

	"verif/harness/gwgen"
	"verif/harness/gwsim"
	"verif/harness/mqttref"
	"verif/harness/sngen"
	"verif/harness/snref"
	"verif/harness/vf"
)

// ---- C15 (a): sessions sharing one gateway configuration are isolated ---------------------------

type isoSession struct {
	ClientID string       `json:"client_id"`
	Hostile  bool         `json:"hostile"`
	MaxTopic uint16       `json:"max_topic_id"`
	Auto     gwsim.Auto   `json:"auto"`
	Steps    []gwsim.Step `json:"steps"`
}

type isoCase struct {
	Cfg      gwsim.Config `json:"cfg"`
	Sessions []isoSession `json:"sessions"`
	Order    []int        `json:"order"` // interleaving: which session takes its next step
	// Flood: at the end every session sends that many QoS 0 PUBLISHes (short topic, 48 octets of its own
	// letter and a counter), all sessions at once with no settling in between, so that the gateway's
	// session goroutines really run side by side.
	Flood int `json:"flood,omitempty"`
}

func genIsoSession(t *rapid.T, cfg gwsim.Config, idx int) isoSession {
	s := isoSession{ClientID: rapid.SampledFrom([]string{"cl", "cl", "c2"}).Draw(t, "cid")}
	s.Auto = gwsim.Auto{Connack: gwgen.U8(0), BrokerAcks: true, ClientRegack: true, ClientAcks: true, BrokerPubrel: true,
		Suback: rapid.SampledFrom([]string{"grant", "grant", "fail"}).Draw(t, "suback")}
	s.Hostile = rapid.IntRange(0, 3).Draw(t, "hostile") == 0
	if s.Hostile && rapid.Bool().Draw(t, "hostile_silent") {
		// a hostile client which does not acknowledge the broker's publishes: their exchanges stay open
		s.Auto.ClientAcks = false
	}
	if rapid.IntRange(0, 3).Draw(t, "small") == 0 {
		s.MaxTopic = uint16(rapid.IntRange(2, 5).Draw(t, "maxtopic"))
	}
	add := func(st ...gwsim.Step) { s.Steps = append(s.Steps, st...) }
	// The comparison needs a deterministic session: a name with two topic IDs makes the gateway's
	// name->ID lookups depend on map iteration order. So a plain name is subscribed to only while
	// it has no ID yet.
	hasID := map[string]bool{}
	var bmids []uint16 // message IDs of this script's broker publishes so far
	if !s.Hostile || rapid.Bool().Draw(t, "hostile_connects") {
		// The connect exchange is made of separate script steps (CONNECT, AUTH, WILLTOPIC, WILLMSG), so
		// that the exchanges of different sessions overlap in the drawn interleaving; every session
		// has its own credentials and its own will.
		will := rapid.Bool().Draw(t, "will")
		add(gwgen.SN(gwgen.Connect(s.ClientID, 60, will, true)))
		if cfg.Auth {
			add(gwgen.SN(gwgen.AuthPlain(fmt.Sprintf("user%d", idx), []byte(fmt.Sprintf("pw%d", idx)))))
		}
		if will {
			add(gwgen.SN(gwgen.WillTopic(fmt.Sprintf("will/%d", idx), 1, false)), gwgen.SN(gwgen.WillMsg([]byte(fmt.Sprintf("gone-%d", idx)))))
		}
	}
	n := rapid.IntRange(1, 8).Draw(t, "n")
	for i := 0; i < n; i++ {
		mid := uint16(rapid.IntRange(1, 3).Draw(t, "mid"))
		kinds := []string{"register", "register", "subscribe", "cpub", "bpub", "bpub-new", "sleep", "wake", "ppub"}
		if s.Hostile {
			kinds = append(kinds, "garbage", "garbage", "illegal", "badmq", "mqclose", "anypkt", "anypkt", "wrongack", "wrongack")
		}
		switch rapid.SampledFrom(kinds).Draw(t, "kind") {
		case "register":
			name := rapid.SampledFrom(plainNames).Draw(t, "name")
			hasID[name] = true
			add(gwgen.SN(gwgen.Register(name, mid)))
		case "subscribe":
			name := rapid.SampledFrom(append(plainNames, wildFilters...)).Draw(t, "name")
			if hasID[name] {
				name = "t/#"
			}
			hasID[name] = true
			add(gwgen.SN(gwgen.SubscribeName(name, 1, mid)))
		case "cpub":
			add(gwgen.SN(gwgen.Publish(snref.TITNormal, uint16(rapid.IntRange(1, 6).Draw(t, "tid")), byte(rapid.IntRange(0, 2).Draw(t, "qos")), mid, []byte("c"))))
		case "ppub":
			add(gwgen.SN(gwgen.Publish(snref.TITPredefined, uint16(rapid.IntRange(1, 3).Draw(t, "pid")), 0, mid, []byte("p"))))
		case "bpub":
			topic := rapid.SampledFrom(append(plainNames, "ab", "p/*/1", "p/cl/2")).Draw(t, "topic")
			hasID[topic] = true
			bmids = append(bmids, 10+mid)
			add(gwgen.MQ(gwgen.BPublish(topic, byte(rapid.IntRange(0, 2).Draw(t, "qos")), 10+mid, []byte("b"), false, false)))
		case "bpub-new":
			bmids = append(bmids, 20+mid)
			add(gwgen.MQ(gwgen.BPublish(fmt.Sprintf("new/%d/%d", idx, i), byte(rapid.IntRange(0, 2).Draw(t, "qos")), 20+mid, []byte("n"), false, false)))
		case "sleep":
			add(gwgen.SN(gwgen.Disconnect(30)))
		case "wake":
			add(gwgen.SN(gwgen.Pingreq(s.ClientID)))
		case "garbage":
			add(gwsim.Step{K: "snraw", Raw: sngen.Datagram(t)})
		case "illegal":
			add(gwgen.SN(snref.Pkt{Type: snref.SUBACK, MsgID: mid}))
		case "wrongack":
			// an acknowledgement of the wrong kind (or with a refusing return code) for a message ID
			// which the broker's publishes of this script use
			typ := rapid.SampledFrom([]byte{snref.PUBACK, snref.PUBREC, snref.PUBCOMP, snref.REGACK}).Draw(t, "acktype")
			add(gwgen.SN(snref.Pkt{Type: typ, MsgID: rapid.SampledFrom(append([]uint16{11, 23, 0xffff}, bmids...)).Draw(t, "ackmid"), TopicID: uint16(rapid.IntRange(0, 3).Draw(t, "acktid")), RC: byte(rapid.IntRange(0, 3).Draw(t, "ackrc"))}))
		case "badmq":
			add(gwsim.Step{K: "mqraw", Raw: rapid.SampledFrom([][]byte{{0xf0, 0}, {0x30, 0x01, 0}, {0x90, 0x02, 0, 1}}).Draw(t, "badmq")})
		case "mqclose":
			add(gwgen.MQClose())
		case "anypkt":
			p := sngen.LegalPkt(t, sngen.AnyType().Draw(t, "anytype"))
			if len(p.Data) > 64 {
				p.Data = p.Data[:64]
			}
			if len(p.TopicName) > 64 {
				p.TopicName = p.TopicName[:64]
			}
			if len(p.ClientID) > 23 {
				p.ClientID = p.ClientID[:23]
			}
			if len(p.GwAddr) > 16 {
				p.GwAddr = p.GwAddr[:16]
			}
			if len(p.Method) > 16 {
				p.Method = p.Method[:16]
			}
			add(gwgen.SN(p))
		}
	}
	if rapid.Bool().Draw(t, "disconnects") {
		add(gwgen.SN(gwgen.Disconnect(0)))
	}
	return s
}

func genIso(t *rapid.T) isoCase {
	c := isoCase{Cfg: gwgen.Cfg(t)}
	c.Cfg.RetryDelayMs = 10000
	if c.Cfg.GwUser != nil && rapid.Bool().Draw(t, "long_gwpass") {
		// gateway credentials longer than any client's (they are one configuration object shared by all sessions)
		c.Cfg.GwPass = []byte("default-gateway-password")
	}
	// predefined names are unique per (client, ID), so that name->ID lookups are deterministic
	c.Cfg.Predef = map[string]map[uint16]string{}
	for _, cl := range []string{"*", "cl", "c2"} {
		for id := uint16(1); id <= 4; id++ {
			if rapid.Bool().Draw(t, "predef") {
				if c.Cfg.Predef[cl] == nil {
					c.Cfg.Predef[cl] = map[uint16]string{}
				}
				c.Cfg.Predef[cl][id] = fmt.Sprintf("p/%s/%d", cl, id)
			}
		}
	}
	n := rapid.IntRange(2, 3).Draw(t, "nsessions")
	left := make([]int, n)
	total := 0
	for i := 0; i < n; i++ {
		s := genIsoSession(t, c.Cfg, i)
		c.Sessions = append(c.Sessions, s)
		left[i] = len(s.Steps)
		total += left[i]
	}
	for total > 0 {
		var cand []int
		for i, l := range left {
			if l > 0 {
				cand = append(cand, i)
			}
		}
		i := rapid.SampledFrom(cand).Draw(t, "turn")
		c.Order = append(c.Order, i)
		left[i]--
		total--
	}
	c.Flood = rapid.SampledFrom([]int{0, 40, 150}).Draw(t, "flood")
	return c
}

// sessionView is what one session sent, timing-free.
type sessionView struct {
	toClient [][]byte
	toBroker []string
	ended    bool
}

func viewOf(tr *gwsim.Trace) sessionView {
	var v sessionView
	for _, e := range tr.Events {
		switch e.Dir {
		case gwsim.GC:
			v.toClient = append(v.toClient, e.Raw)
		case gwsim.GB:
			if e.MQ != nil {
				v.toBroker = append(v.toBroker, fmt.Sprintf("%v %x", *e.MQ, mqttref.Encode(*e.MQ)))
			} else {
				v.toBroker = append(v.toBroker, fmt.Sprintf("raw %x", e.Raw))
			}
		case gwsim.EV:
			if e.What == "END" {
				v.ended = true
			}
		}
	}
	return v
}

func diffViews(a, b sessionView) string {
	if len(a.toClient) != len(b.toClient) {
		return fmt.Sprintf("datagrams to the client: %d alone, %d with neighbours", len(a.toClient), len(b.toClient))
	}
	for i := range a.toClient {
		if !bytes.Equal(a.toClient[i], b.toClient[i]) {
			pa, _, _ := snref.Decode(a.toClient[i], false)
			pb, _, _ := snref.Decode(b.toClient[i], false)
			return fmt.Sprintf("datagram #%d to the client: alone %v, with neighbours %v", i, pa, pb)
		}
	}
	if len(a.toBroker) != len(b.toBroker) {
		return fmt.Sprintf("packets to the broker: %d alone, %d with neighbours", len(a.toBroker), len(b.toBroker))
	}
	for i := range a.toBroker {
		if a.toBroker[i] != b.toBroker[i] {
			return fmt.Sprintf("packet #%d to the broker: alone %s, with neighbours %s", i, a.toBroker[i], b.toBroker[i])
		}
	}
	if a.ended != b.ended {
		return fmt.Sprintf("session ended: alone %v, with neighbours %v", a.ended, b.ended)
	}
	return ""
}

func runIso(c isoCase, only int) []*gwsim.Trace {
	shared := gwsim.NewShared(c.Cfg)
	sess := make([]*gwsim.Session, len(c.Sessions))
	next := make([]int, len(c.Sessions))
	for i, s := range c.Sessions {
		if only >= 0 && i != only {
			continue
		}
		cfg := c.Cfg
		cfg.MaxTopicID = s.MaxTopic
		sess[i] = gwsim.Start(cfg, shared, fmt.Sprintf("s%d", i))
		sess[i].SetAuto(s.Auto)
	}
	for _, s := range sess {
		if s != nil {
			s.Settle()
		}
	}
	for _, i := range c.Order {
		st := c.Sessions[i].Steps[next[i]]
		next[i]++
		if sess[i] == nil {
			continue
		}
		sess[i].Apply(next[i]-1, st)
		// let every session settle (replies of one session never depend on another's)
		for _, s := range sess {
			if s != nil {
				s.Settle()
			}
		}
	}
	if c.Flood > 0 {
		for k := 0; k < c.Flood; k++ {
			for i, s := range sess {
				if s == nil {
					continue
				}
				payload := bytes.Repeat([]byte{byte('A' + i)}, 44)
				payload = append(payload, []byte(fmt.Sprintf("%04d", k))...)
				s.ClientSend(gwgen.Publish(snref.TITShort, snref.ShortID("ab"), 0, 0, payload), false)
			}
		}
		for _, s := range sess {
			if s != nil {
				s.Settle()
			}
		}
	}
	// let sessions that are on their way out finish (one poll interval), in both kinds of run alike
	time.Sleep(250 * time.Millisecond)
	for _, s := range sess {
		if s != nil {
			s.Settle()
		}
	}
	out := make([]*gwsim.Trace, len(sess))
	for i, s := range sess {
		if s != nil {
			out[i] = s.Finish()
		}
	}
	return out
}

func TestC15(t *testing.T) {
	vf.Check(t, vf.Prop[isoCase]{
		ID: "C15", Name: "sessions-isolated", Bubble: true, MarkCurrent: true,
		Rule: "2-3 sessions created from one shared gateway configuration and one shared predefined-topic map (as ListenAndServe does), same or different client IDs, each with its own generated script (registrations, subscriptions, publishes both ways, sleep/wake, optional scaled-down topic-ID space; a quarter of the sessions hostile: undecodable datagrams, illegal packets, acknowledgements of the wrong kind for live message IDs, garbage from their broker connection, abrupt broker close, packets of all 28 types) and a drawn interleaving of their steps; in two thirds of the cases a final flood: every session sends 40 or 150 PUBLISHes made of its own letter, all sessions at once without settling. Non-trivial = at least two sessions each with a registration or subscription; hostile neighbours are labelled; distinct by case.",
		Assumptions: []string{"metamorphic oracle: what each session sends to its client and to its broker connection (bytes, in order, timing-free) when interleaved with its neighbours equals what it sends when the same script runs alone", "no virtual time passes inside a case, so retransmissions cannot make the two runs differ"},
		Gen:         genIso,
		Run: func(c isoCase) (r vf.Result) {
			together := runIso(c, -1)
			withReg := 0
			for i, s := range c.Sessions {
				if s.Hostile {
					r.Label("hostile-neighbour")
				}
				for _, st := range s.Steps {
					if st.SN != nil && (st.SN.Type == snref.REGISTER || st.SN.Type == snref.SUBSCRIBE) {
						withReg++
						break
					}
				}
				alone := runIso(c, i)
				if d := diffViews(viewOf(alone[i]), viewOf(together[i])); d != "" {
					r.Fail("session-affected-by-neighbour", "session %d (client %q) behaves differently next to its neighbours: %s\n--- alone:\n%s--- with neighbours:\n%s", i, s.ClientID, d, alone[i].Dump(25), together[i].Dump(25))
					return
				}
			}
			r.NonTrivial = withReg >= 2
			return
		},
	})
}
