package gw

import (
	"context"
	"encoding/json"
	"fmt"
	"net"
	"os"
	"sort"
	"sync"
	"testing"
	"testing/synctest"
	"time"

	"github.com/energomonitor/bisquitt/gateway"
	"github.com/energomonitor/bisquitt/topics"
	"github.com/energomonitor/bisquitt/util"
	"pgregory.net/rapid"

	"verif/harness/gwsim"
	"verif/harness/mqttref"
	"verif/harness/snref"
	"verif/harness/vf"
)

// ---- C15 (b): the real Gateway.ListenAndServe on loopback sockets --------------------------------
//
// K scripted peers, each with its own UDP socket, talk at the same time to one real
// Gateway.ListenAndServe; the harness plays the broker on a loopback TCP listener. What each peer
// (and its broker connection) receives must be what the same script produces when it runs alone
// against one session (the alone-run is the in-memory, virtual-time one of part (a)), and the gateway
// must open exactly one broker connection per peer address carrying that peer's client ID.

type netPeer struct {
	idx    int
	auto   gwsim.Auto
	udp    *net.UDPConn
	mu     sync.Mutex
	tcp    net.Conn
	gotC   [][]byte // datagrams received from the gateway
	gotB   []string // MQTT packets the gateway wrote to this peer's broker connection
	cids   []string // client IDs of the CONNECTs seen on the broker connection
	eof    bool     // the gateway closed the broker connection
	parser mqttref.Parser
	wg     sync.WaitGroup
}

func (p *netPeer) counts() (int, int, bool) {
	p.mu.Lock()
	defer p.mu.Unlock()
	return len(p.gotC), len(p.gotB), p.eof
}

func (p *netPeer) readUDP() {
	defer p.wg.Done()
	buf := make([]byte, 65536)
	for {
		n, err := p.udp.Read(buf)
		if err != nil {
			return
		}
		b := append([]byte(nil), buf[:n]...)
		e := gwsim.Event{Dir: gwsim.GC, Raw: b}
		if pk, _, err := snref.Decode(b, false); err == nil {
			e.SN = &pk
		}
		p.mu.Lock()
		p.gotC = append(p.gotC, b)
		p.mu.Unlock()
		sn, _ := gwsim.Reactions(p.auto, e)
		for _, r := range sn {
			p.udp.Write(snref.Encode(r))
		}
	}
}

func (p *netPeer) readTCP(c net.Conn) {
	defer p.wg.Done()
	buf := make([]byte, 65536)
	for {
		n, err := c.Read(buf)
		if n > 0 && p.parser.Err == nil {
			pk := p.parser.Feed(buf[:n])
			for i := range pk {
				p.mu.Lock()
				p.gotB = append(p.gotB, fmt.Sprintf("%v %x", pk[i], mqttref.Encode(pk[i])))
				if pk[i].Type == mqttref.CONNECT {
					p.cids = append(p.cids, pk[i].ClientID)
				}
				p.mu.Unlock()
				_, mq := gwsim.Reactions(p.auto, gwsim.Event{Dir: gwsim.GB, MQ: &pk[i]})
				for _, r := range mq {
					c.Write(mqttref.Encode(r))
				}
			}
			if p.parser.Err != nil {
				p.mu.Lock()
				p.gotB = append(p.gotB, fmt.Sprintf("raw %x", buf[:n]))
				p.mu.Unlock()
			}
		}
		if err != nil {
			p.mu.Lock()
			p.eof = true
			p.mu.Unlock()
			return
		}
	}
}

// runAloneTimed runs one session's script alone in memory (inside a bubble). After every step 150 ms
// of virtual time pass, so that a session which ends because of a step is seen ending at that step
// (the real gateway needs up to one 100 ms poll interval to wind a session down).
func runAloneTimed(cfg gwsim.Config, s isoSession) *gwsim.Trace {
	sess := gwsim.Start(cfg, gwsim.NewShared(cfg), "alone")
	sess.SetAuto(s.Auto)
	sess.Settle()
	for i, st := range s.Steps {
		sess.Apply(i, st)
		time.Sleep(150 * time.Millisecond)
		sess.Settle()
	}
	return sess.Finish()
}

type netExpect struct {
	view     sessionView
	cumC     []int // datagrams to the client after step k (cumulative, reactions included)
	cumB     []int
	endsAt   int // index of the step after which the session has ended; -1 = it survives
	clientID string
}

func expectOf(tr *gwsim.Trace, nsteps int) netExpect {
	// what the harness's own teardown at the end of the alone-run causes (Step -1) is not expected
	own := &gwsim.Trace{}
	for _, e := range tr.Events {
		if e.Step >= 0 {
			own.Events = append(own.Events, e)
		}
	}
	x := netExpect{view: viewOf(own), cumC: make([]int, nsteps), cumB: make([]int, nsteps), endsAt: -1}
	for _, e := range tr.Events {
		if e.Step < 0 || e.Step >= nsteps {
			continue
		}
		switch {
		case e.Dir == gwsim.GC:
			x.cumC[e.Step]++
		case e.Dir == gwsim.GB:
			x.cumB[e.Step]++
		case e.Dir == gwsim.EV && (e.What == "END" || e.What == "MQEOF") && x.endsAt < 0:
			x.endsAt = e.Step
		}
	}
	for i := 1; i < nsteps; i++ {
		x.cumC[i] += x.cumC[i-1]
		x.cumB[i] += x.cumB[i-1]
	}
	return x
}

func multisetDiff(what string, want, got []string) string {
	a := append([]string(nil), want...)
	b := append([]string(nil), got...)
	sort.Strings(a)
	sort.Strings(b)
	if len(a) != len(b) {
		return fmt.Sprintf("%s: %d when alone, %d next to its neighbours\n  alone: %q\n  real:  %q", what, len(a), len(b), trunc(want), trunc(got))
	}
	for i := range a {
		if a[i] != b[i] {
			return fmt.Sprintf("%s differ\n  alone: %q\n  real:  %q", what, trunc(want), trunc(got))
		}
	}
	return ""
}

func trunc(s []string) []string {
	if len(s) > 12 {
		return append(append([]string(nil), s[:12]...), "...")
	}
	return s
}

func freeUDPPort() int {
	c, err := net.ListenUDP("udp", &net.UDPAddr{IP: net.IPv4(127, 0, 0, 1)})
	if err != nil {
		return 0
	}
	defer c.Close()
	return c.LocalAddr().(*net.UDPAddr).Port
}

// runNet executes the case against the real ListenAndServe. It returns "" when every peer saw what
// it sees alone, a description of the difference otherwise; inconclusive=true when the sockets could
// not be set up.
func runNet(c isoCase, exp []netExpect, pace time.Duration) (kind, detail string, inconclusive bool) {
	ln, err := net.Listen("tcp", "127.0.0.1:0")
	if err != nil {
		return "", err.Error(), true
	}
	defer ln.Close()
	predef := topics.PredefinedTopics{}
	for cl, m := range c.Cfg.Predef {
		for id, n := range m {
			predef.Add(cl, n, id)
		}
	}
	gcfg := &gateway.GatewayConfig{
		MqttBrokerAddress: ln.Addr().(*net.TCPAddr), MqttConnectionTimeout: 5 * time.Second,
		MqttUser: c.Cfg.GwUser, MqttPassword: c.Cfg.GwPass, PredefinedTopics: predef, AuthEnabled: c.Cfg.Auth,
		RetryDelay: time.Duration(c.Cfg.RetryDelayMs) * time.Millisecond, RetryCount: c.Cfg.RetryCount,
	}
	port := freeUDPPort()
	if port == 0 {
		return "", "no free UDP port", true
	}
	ctx, cancel := context.WithCancel(context.Background())
	gwDone := make(chan error, 1)
	go func() {
		gwDone <- gateway.NewGateway(util.NoOpLogger{}, gcfg).ListenAndServe(ctx, fmt.Sprintf("127.0.0.1:%d", port))
	}()
	defer func() {
		cancel()
		select {
		case <-gwDone:
		case <-time.After(5 * time.Second):
		}
	}()

	accepted := make(chan net.Conn, 16)
	go func() {
		for {
			conn, err := ln.Accept()
			if err != nil {
				close(accepted)
				return
			}
			accepted <- conn
		}
	}()

	peers := make([]*netPeer, len(c.Sessions))
	defer func() {
		for _, p := range peers {
			if p == nil {
				continue
			}
			p.udp.Close()
			if p.tcp != nil {
				p.tcp.Close()
			}
			p.wg.Wait()
		}
	}()
	gwAddr := &net.UDPAddr{IP: net.IPv4(127, 0, 0, 1), Port: port}
	waitFor := func(p *netPeer, nc, nb int, d time.Duration) bool {
		end := time.Now().Add(d)
		for {
			gc, gb, _ := p.counts()
			if gc >= nc && gb >= nb {
				return true
			}
			if time.Now().After(end) {
				vf.Count("c15net_wait_timeouts", 1)
				if os.Getenv("VERIF_DEBUG") != "" {
					js, _ := json.Marshal(c.Sessions[p.idx])
					fmt.Printf("TIMEOUT peer %d: have %d/%d want %d/%d\n%s\nwantC=%x gotC=%x\n", p.idx, gc, gb, nc, nb, js, exp[p.idx].view.toClient, p.gotC)
				}
				return false
			}
			time.Sleep(200 * time.Microsecond)
		}
	}
	apply := func(p *netPeer, st gwsim.Step) {
		switch st.K {
		case "sn":
			p.udp.Write(snref.Encode(*st.SN))
		case "snraw":
			p.udp.Write(st.Raw)
		case "mq":
			p.tcp.Write(mqttref.Encode(*st.MQ))
		case "mqraw":
			p.tcp.Write(st.Raw)
		case "mqclose":
			p.tcp.Close()
		}
	}
	// Every script starts with a datagram (CONNECT); the first datagrams go out one peer at a
	// time, so that the broker connection which appears belongs to that peer. ListenAndServe needs
	// a moment to bind its socket: wait until the port can no longer be bound by somebody else.
	bound := false
	for i := 0; i < 2000 && !bound; i++ {
		pc, err := net.ListenUDP("udp", gwAddr)
		if err != nil {
			bound = true
			break
		}
		pc.Close()
		select {
		case err := <-gwDone:
			gwDone <- err
			return "", fmt.Sprintf("ListenAndServe returned early: %v", err), true
		default:
		}
		time.Sleep(time.Millisecond)
	}
	if !bound {
		return "", "gateway socket never bound", true
	}
	for i, s := range c.Sessions {
		u, err := net.DialUDP("udp", nil, gwAddr)
		if err != nil {
			return "", err.Error(), true
		}
		p := &netPeer{idx: i, auto: s.Auto, udp: u}
		peers[i] = p
		p.wg.Add(1)
		go p.readUDP()
		apply(p, s.Steps[0])
		select {
		case conn := <-accepted:
			if conn == nil {
				return "", "listener closed", true
			}
			p.mu.Lock()
			p.tcp = conn
			p.mu.Unlock()
			p.wg.Add(1)
			go p.readTCP(conn)
		case <-time.After(5 * time.Second):
			return "no-broker-connection-for-peer", fmt.Sprintf("peer %d sent its first datagram and the gateway opened no broker connection within 5 s", i), false
		}
		waitFor(p, exp[i].cumC[0], exp[i].cumB[0], 3*time.Second)
	}
	// the remaining steps: all peers at once, each waiting only for its own expected traffic
	var wg sync.WaitGroup
	for i := range c.Sessions {
		wg.Add(1)
		go func(i int) {
			defer wg.Done()
			p, s := peers[i], c.Sessions[i]
			if exp[i].endsAt == 0 {
				return
			}
			for k := 1; k < len(s.Steps); k++ {
				apply(p, s.Steps[k])
				waitFor(p, exp[i].cumC[k], exp[i].cumB[k], 3*time.Second)
				if k > 0 && exp[i].cumC[k] == exp[i].cumC[k-1] && exp[i].cumB[k] == exp[i].cumB[k-1] {
					// nothing to wait for: give the gateway a moment to take the packet in before
					// the next one arrives on the other link
					time.Sleep(10*time.Millisecond + pace)
				}
				time.Sleep(pace)
				if exp[i].endsAt >= 0 && k >= exp[i].endsAt {
					return // the session is over; further datagrams would open a new one
				}
			}
		}(i)
	}
	wg.Wait()
	// sessions which end must be seen ending (broker connection closed by the gateway)
	for i, p := range peers {
		if exp[i].view.ended {
			end := time.Now().Add(3 * time.Second)
			for {
				if _, _, eof := p.counts(); eof || time.Now().After(end) {
					break
				}
				time.Sleep(time.Millisecond)
			}
		}
	}
	time.Sleep(120 * time.Millisecond) // anything that should not have been sent arrives by now
	select {
	case conn := <-accepted:
		if conn != nil {
			conn.Close()
			return "extra-broker-connection", fmt.Sprintf("%d peers, but the gateway opened one more broker connection", len(peers)), false
		}
	default:
	}
	for i, p := range peers {
		p.mu.Lock()
		gotC, gotB, cids, eof := p.gotC, p.gotB, p.cids, p.eof
		p.mu.Unlock()
		var wantC, haveC []string
		for _, b := range exp[i].view.toClient {
			wantC = append(wantC, fmt.Sprintf("%x", b))
		}
		for _, b := range gotC {
			haveC = append(haveC, fmt.Sprintf("%x", b))
		}
		who := fmt.Sprintf("peer %d (client %q)", i, c.Sessions[i].ClientID)
		if d := multisetDiff("datagrams to the client", wantC, haveC); d != "" {
			return "peer-traffic-differs/to-client", who + ": " + d, false
		}
		if d := multisetDiff("packets to the broker", exp[i].view.toBroker, gotB); d != "" {
			return "peer-traffic-differs/to-broker", who + ": " + d, false
		}
		own := map[string]bool{}
		for _, st := range c.Sessions[i].Steps {
			if st.SN != nil && st.SN.Type == snref.CONNECT {
				own[string(st.SN.ClientID)] = true
			}
			if st.K == "snraw" { // a generated datagram may well be a CONNECT
				if pk, _, err := snref.Decode(st.Raw, false); err == nil && pk.Type == snref.CONNECT {
					own[string(pk.ClientID)] = true
				}
			}
		}
		for _, id := range cids {
			if !own[id] {
				return "broker-connection-carries-foreign-client", fmt.Sprintf("%s: its broker connection carried a CONNECT of client %q", who, id), false
			}
		}
		if eof != exp[i].view.ended {
			return "peer-session-end-differs", fmt.Sprintf("%s: session ended alone=%v, real=%v", who, exp[i].view.ended, eof), false
		}
	}
	return "", "", false
}

func genNet(t *rapid.T) isoCase {
	c := isoCase{Cfg: gwgenCfgNet(t)}
	n := rapid.IntRange(2, 4).Draw(t, "npeers")
	for i := 0; i < n; i++ {
		s := genIsoSession(t, c.Cfg, i)
		s.MaxTopic = 0 // ListenAndServe always uses the real topic-ID range
		// no sleeping here: what a sleeping session sends depends on whether a broker packet or the
		// wake-up PINGREQ is taken in first, and over real sockets nobody controls that (sleep
		// next to neighbours is covered by part (a))
		kept := s.Steps[:0:0]
		for _, st := range s.Steps {
			if st.SN != nil && ((st.SN.Type == snref.DISCONNECT && !st.SN.NoDuration) || (st.SN.Type == snref.PINGREQ && len(st.SN.ClientID) > 0)) {
				continue
			}
			kept = append(kept, st)
		}
		s.Steps = kept
		if len(s.Steps) == 0 || s.Steps[0].SN == nil || s.Steps[0].SN.Type != snref.CONNECT {
			cn := gwsim.Step{K: "sn", SN: &snref.Pkt{Type: snref.CONNECT, ProtocolID: 1, Duration: 60, ClientID: []byte(s.ClientID), Clean: true}}
			s.Steps = append([]gwsim.Step{cn}, s.Steps...)
		}
		c.Sessions = append(c.Sessions, s)
	}
	return c
}

func gwgenCfgNet(t *rapid.T) gwsim.Config {
	c := genIso(t).Cfg // same configuration space as part (a): shared predefined map, auth on/off
	c.RetryDelayMs = 10000
	return c
}

func TestC15Net(t *testing.T) {
	vf.Check(t, vf.Prop[isoCase]{
		ID: "C15", Name: "listen-and-serve-isolated", MarkCurrent: true,
		Rule: "2-4 scripted peers, each on its own UDP socket, run their generated scripts at the same time (no barrier between peers) against the real Gateway.ListenAndServe on a loopback port; the harness is the broker on a loopback TCP listener. Scripts as in part (a) (registrations, subscriptions, publishes both ways, sleep/wake, a quarter of the peers hostile). Non-trivial = at least two peers each with a registration or subscription; distinct by case.",
		Assumptions: []string{"oracle: per peer, the multiset of datagrams it receives and of MQTT packets on its broker connection equals what the same script produces alone against one session (in-memory run of part (a)); one broker connection per peer address, carrying only that peer's client ID; no further broker connection", "real sockets and real time: a difference is reported only if it shows in two executions of the case; set-up failures are inconclusive", "order within a direction is not compared (reactive peers answer as packets arrive)"},
		Gen:         genNet,
		Run: func(c isoCase) (r vf.Result) {
			exp := make([]netExpect, len(c.Sessions))
			withReg := 0
			for i, s := range c.Sessions {
				var tr *gwsim.Trace
				synctest.Test(t, func(t *testing.T) { tr = runAloneTimed(c.Cfg, s) })
				exp[i] = expectOf(tr, len(s.Steps))
				if s.Hostile {
					r.Label("hostile-neighbour")
				}
				for _, st := range s.Steps {
					if st.SN != nil && (st.SN.Type == snref.REGISTER || st.SN.Type == snref.SUBSCRIBE) {
						withReg++
						break
					}
				}
			}
			r.NonTrivial = withReg >= 2
			r.Label(fmt.Sprintf("peers=%d", len(c.Sessions)))
			kind, detail, inc := runNet(c, exp, 0)
			if inc {
				r.Skip = true
				return
			}
			if kind == "" {
				return
			}
			// real time and real sockets: confirm before reporting
			// (the second execution leaves 40 ms after every step: a difference which only comes from
			// two packets of one peer racing on its two links does not show again)
			kind2, detail2, inc2 := runNet(c, exp, 40*time.Millisecond)
			if inc2 || kind2 == "" {
				vf.Count("c15net_unconfirmed_difference", 1)
				return
			}
			r.Fail(kind2, "%s\n(first execution: %s: %s)", detail2, kind, detail)
			return
		},
	})
}
