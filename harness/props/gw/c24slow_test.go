package gw

import (
	"fmt"
	"testing"

	"pgregory.net/rapid"

	"verif/harness/gwgen"
	"verif/harness/gwsim"
	"verif/harness/mqttref"
	"verif/harness/snref"
	"verif/harness/vf"
)

// ---- C24, second part: a broker which reads slowly ------------------------------------------------
//
// What the broker reads is a byte stream. A broker (or a network) that is slow takes a packet in
// pieces: the gateway's write fills what is left of the socket buffer, blocks, and - the gateway
// polls its connections - times out with a part of the packet written. Whatever the gateway does
// then, the stream must still be the packets it meant to send, each once.

type c24Slow struct {
	Script gwsim.Script `json:"script"`
	// Background: a broker QoS 2 message whose PUBREL never comes: the gateway's retry timer keeps
	// writing PUBRECs to the broker from its own goroutine, also while another write is stalled
	Background bool `json:"background,omitempty"`
}

func genC24Slow(t *rapid.T) c24Slow {
	c := c24Slow{}
	sc := &c.Script
	sc.Cfg = gwgen.Cfg(t)
	sc.Cfg.RetryDelayMs = 10000
	sc.Cfg.Predef = map[string]map[uint16]string{"*": {1: "p/one"}}
	sc.Auto = gwsim.Auto{Connack: gwgen.U8(0), BrokerAcks: true, ClientRegack: true, ClientAcks: true, BrokerPubrel: true, Suback: "grant"}
	add := func(s ...gwsim.Step) { sc.Steps = append(sc.Steps, s...) }
	stall := func() bool {
		if rapid.IntRange(0, 2).Draw(t, "stall") == 0 {
			return false
		}
		// what is left of the broker's buffer: a few octets (inside the fixed header or the topic), or more
		add(gwsim.Step{K: "mqstall", D: int64(rapid.SampledFrom([]int{1, 2, 3, 4, 5, 7, 12, 40, 300, 3000}).Draw(t, "room"))})
		return true
	}
	unstall := func() {
		// longer than the gateway's write poll (100 ms), once or several times over
		add(gwgen.Adv(rapid.SampledFrom([]int64{99, 101, 150, 250, 450}).Draw(t, "stalled_ms")), gwsim.Step{K: "mqunstall"}, gwgen.Adv(1))
	}
	will := rapid.IntRange(0, 2).Draw(t, "will") == 0
	st := stall()
	add(gwgen.SN(gwgen.Connect("cl", 60, will, true)))
	if sc.Cfg.Auth {
		add(gwgen.SN(gwgen.AuthPlain("alice", []byte("secret"))))
	}
	if will {
		add(gwgen.SN(gwgen.WillTopic("w/t", 1, false)), gwgen.SN(gwgen.WillMsg(make([]byte, rapid.SampledFrom([]int{3, 200, 2000}).Draw(t, "willlen")))))
	}
	if st {
		unstall()
	}
	if rapid.IntRange(0, 2).Draw(t, "background") == 0 {
		c.Background = true
		sc.Cfg.RetryDelayMs = 200
		sc.Cfg.RetryCount = 4
		quiet := sc.Auto
		quiet.BrokerPubrel = false
		add(gwgen.SetAuto(quiet), gwgen.MQ(gwgen.BPublish("ab", 2, 900, []byte("background"), false, false)))
	}
	n := rapid.IntRange(1, 6).Draw(t, "nsteps")
	for i := 0; i < n; i++ {
		mid := uint16(10 + i)
		st := stall()
		k := rapid.IntRange(1, 2).Draw(t, "burst")
		if !st {
			k = 1
		}
		for j := 0; j < k; j++ {
			mid := mid + uint16(100*j)
			switch rapid.IntRange(0, 4).Draw(t, "kind") {
			case 0:
				add(gwgen.SN(gwgen.SubscribeName(rapid.SampledFrom([]string{"t/a", "t/+", "some/much/longer/topic/filter/#"}).Draw(t, "filter"), 1, mid)))
			case 1:
				add(gwgen.SN(gwgen.Register(fmt.Sprintf("n/%d", i), mid)))
			default:
				size := rapid.SampledFrom([]int{0, 1, 20, 120, 130, 1000, 5000}).Draw(t, "size")
				data := make([]byte, size)
				for x := range data {
					data[x] = byte('a' + (x+i)%26)
				}
				p := gwgen.Publish(snref.TITPredefined, 1, byte(rapid.IntRange(0, 2).Draw(t, "qos")), mid, data)
				if rapid.Bool().Draw(t, "short") {
					p.TIT, p.TopicID = snref.TITShort, snref.ShortID("ab")
				}
				add(gwgen.SN(p))
			}
		}
		if st {
			unstall()
		}
	}
	sc.TailMs = 300
	return c
}

func brokerSide(tr *gwsim.Trace) (out []string) {
	for _, e := range tr.Events {
		if e.Dir == gwsim.GB && e.MQ != nil {
			out = append(out, fmt.Sprintf("%x", mqttref.EncodeFlags(*e.MQ, e.MQ.Flags)))
		}
	}
	return
}

func runC24Slow(c c24Slow) (r vf.Result) {
	tr := gwsim.Run(c.Script)
	stalls := 0
	for _, s := range c.Script.Steps {
		if s.K == "mqstall" {
			stalls++
		}
	}
	r.NonTrivial = stalls > 0
	checkMQTTValid(tr, &r)
	if c.Background {
		r.Label("writes-from-a-timer-goroutine")
	}
	if len(r.Violations) > 0 || stalls == 0 || c.Background {
		// (with retransmissions from a timer in the background the order of the packets depends on
		// the stalls: only the validity of the stream is judged then)
		return
	}
	// the same history with a broker that is never slow: the broker must read the same packets
	ref := c.Script
	ref.Steps = nil
	for _, s := range c.Script.Steps {
		if s.K == "mqstall" || s.K == "mqunstall" {
			continue
		}
		ref.Steps = append(ref.Steps, s)
	}
	tr2 := gwsim.Run(ref)
	got, want := brokerSide(tr), brokerSide(tr2)
	for i := 0; i < len(got) || i < len(want); i++ {
		g, w := "(nothing)", "(nothing)"
		if i < len(got) {
			g = got[i]
		}
		if i < len(want) {
			w = want[i]
		}
		if g != w {
			if len(g) > 80 {
				g = g[:80] + "..."
			}
			if len(w) > 80 {
				w = w[:80] + "..."
			}
			r.Fail("slow-broker-reads-other-packets", "packet %d read by a slow broker: %s; by a broker which is never slow: %s\n%s", i+1, g, w, tr.Dump(30))
			return
		}
	}
	return
}

func TestC24Slow(t *testing.T) {
	vf.Check(t, vf.Prop[c24Slow]{
		ID: "C24", Name: "slow-broker-stream", Bubble: true,
		Rule: "proper sessions (CONNECT with or without will and AUTH, then 1-6 SUBSCRIBE / REGISTER / PUBLISH QoS 0-2 on predefined and short topics with payloads of 0-5000 octets) against a broker which, before two in three of the steps, stops reading after 1, 2, 3, 4, 5, 7, 12, 40, 300 or 3000 more octets (what is left of its socket buffer), for 99-450 ms (the gateway polls its writes every 100 ms), and then reads on; during a stall one or two client packets arrive; in a third of the cases a retry timer of the gateway keeps writing PUBRECs to the broker from its own goroutine meanwhile (RetryDelay 200 ms). Non-trivial = at least one stall; distinct by script.",
		Assumptions: []string{"oracle: the byte stream the broker reads parses as MQTT 3.1.1 packets which are valid (as in the first part), and it is the same sequence of packets, octet for octet, as the one a broker which is never slow reads in the same history", "the in-memory stream link models a TCP write with a deadline: it takes what fits, blocks, and returns the count written so far together with a timeout error"},
		Gen:         genC24Slow,
		Run:         runC24Slow,
	})
}
