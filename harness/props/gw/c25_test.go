package gw

import (
	"fmt"
	"testing"

	"pgregory.net/rapid"

	"verif/harness/gwgen"
	"verif/harness/gwsim"
	"verif/harness/mqttref"
	"verif/harness/sngen"
	"verif/harness/snref"
	"verif/harness/vf"
)

// ---- C25 (gateway fronts): no packet sequence crashes a gateway session ----------------------
//
// A panic in a session goroutine is not recoverable from outside (the session's
// goroutines have no recover), so it kills the test process: the case about to
// run is written to disk first (MarkCurrent) and the driver turns the process
// death into the violation, minimising the script by delta debugging.

type hostileCase struct {
	Front string       `json:"front"` // "client" or "broker"
	Script gwsim.Script `json:"script"`
}

func trimPkt(p snref.Pkt) snref.Pkt {
	if len(p.Data) > 300 {
		p.Data = p.Data[:300]
	}
	if len(p.TopicName) > 300 {
		p.TopicName = p.TopicName[:300]
	}
	if len(p.ClientID) > 40 {
		p.ClientID = p.ClientID[:40]
	}
	if len(p.GwAddr) > 16 {
		p.GwAddr = p.GwAddr[:16]
	}
	return p
}

func genAnySN(t *rapid.T) snref.Pkt {
	p := trimPkt(sngen.LegalPkt(t, sngen.AnyType().Draw(t, "type")))
	// small pools so that IDs hit live exchanges
	if rapid.Bool().Draw(t, "smallids") {
		p.MsgID = uint16(rapid.SampledFrom([]int{0, 1, 2, 3, 0xffff, 0xfffe}).Draw(t, "mid"))
		p.TopicID = uint16(rapid.SampledFrom([]int{0, 1, 2, 3, 4, 0x6162, 0xffff}).Draw(t, "tid"))
	}
	if (p.Type == snref.PUBLISH || p.Type == snref.SUBSCRIBE || p.Type == snref.UNSUBSCRIBE) && rapid.IntRange(0, 9).Draw(t, "tit3") == 0 {
		p.TIT = 3
	}
	if p.Type == snref.SUBSCRIBE && rapid.IntRange(0, 9).Draw(t, "qos3") == 0 {
		p.QoS = 3
	}
	if p.Type == snref.CONNECT {
		p.ClientID = []byte(rapid.SampledFrom([]string{"cl", "c2", "x"}).Draw(t, "cid"))
		p.Duration = rapid.SampledFrom([]uint16{0, 1, 60, 0xffff}).Draw(t, "dur")
	}
	if p.Type == snref.PINGREQ {
		p.ClientID = []byte(rapid.SampledFrom([]string{"", "cl"}).Draw(t, "pcid"))
	}
	if p.Type == snref.DISCONNECT && !p.NoDuration {
		p.Duration = rapid.SampledFrom([]uint16{1, 2, 60, 0xffff}).Draw(t, "sdur")
	}
	return p
}

func genAnyMQ(t *rapid.T) gwsim.Step {
	typ := byte(rapid.IntRange(1, 14).Draw(t, "mqtype"))
	mid := uint16(rapid.SampledFrom([]int{0, 1, 2, 3, 0xffff, 0xfffe}).Draw(t, "mid"))
	p := mqttref.Pkt{Type: typ, MsgID: mid}
	switch typ {
	case mqttref.CONNECT:
		p.ProtoName, p.ProtoLevel, p.ClientID = "MQTT", 4, "evil"
	case mqttref.CONNACK:
		p.RC = byte(rapid.SampledFrom([]int{0, 0, 1, 5, 200}).Draw(t, "rc"))
	case mqttref.PUBLISH:
		p.Topic = rapid.SampledFrom([]string{"ab", "t/a", "new/x", "", "a/#", "p/one", "\xff"}).Draw(t, "topic")
		p.QoS = byte(rapid.IntRange(0, 3).Draw(t, "qos"))
		p.Dup, p.Retain = rapid.Bool().Draw(t, "dup"), rapid.Bool().Draw(t, "retain")
		p.Payload = vf.Payload{N: rapid.SampledFrom([]int{0, 1, 10, 300, 9000}).Draw(t, "plen")}.Bytes()
	case mqttref.SUBACK:
		n := rapid.SampledFrom([]int{0, 1, 1, 2, 5}).Draw(t, "ncodes")
		for i := 0; i < n; i++ {
			p.Codes = append(p.Codes, rapid.SampledFrom([]byte{0, 1, 2, 0x80, 3, 0xff}).Draw(t, "code"))
		}
	case mqttref.SUBSCRIBE, mqttref.UNSUBSCRIBE:
		p.Filters, p.QoSs = []string{"a/b"}, []byte{1}
	}
	raw := mqttref.Encode(p)
	switch rapid.IntRange(0, 9).Draw(t, "mangle") {
	case 0: // wrong fixed-header flags
		raw = mqttref.EncodeFlags(p, byte(rapid.IntRange(0, 15).Draw(t, "flags")))
	case 1: // truncated
		raw = raw[:rapid.IntRange(0, len(raw)).Draw(t, "cut")]
	case 2: // remaining length lies (shorter)
		if len(raw) > 2 && raw[1] > 0 && raw[1] < 128 {
			raw = append([]byte(nil), raw...)
			raw[1] = byte(rapid.IntRange(0, int(raw[1])).Draw(t, "rl"))
		}
	case 3: // garbage
		raw = []byte{byte(rapid.IntRange(0, 255).Draw(t, "g0")), byte(rapid.IntRange(0, 255).Draw(t, "g1")), 0xff, 0xff, 0x7f}
	}
	return gwsim.Step{K: "mqraw", Raw: raw}
}

func genHostile(front string) func(t *rapid.T) hostileCase {
	return func(t *rapid.T) hostileCase {
		c := hostileCase{Front: front}
		sc := &c.Script
		sc.Cfg = gwgen.Cfg(t)
		sc.Cfg.RetryDelayMs = rapid.SampledFrom([]int{1, 100, 1000}).Draw(t, "retry_ms")
		sc.Cfg.RetryCount = uint(rapid.IntRange(0, 2).Draw(t, "retries"))
		sc.Cfg.Predef = map[string]map[uint16]string{"*": {1: "p/one"}, "cl": {2: "p/two"}}
		sc.Cfg.MaxTopicID = uint16(rapid.SampledFrom([]int{0, 0, 3}).Draw(t, "max_topic_id"))
		sc.Auto = gwsim.Auto{BrokerAcks: rapid.Bool().Draw(t, "backs"), ClientRegack: rapid.Bool().Draw(t, "cregack"), ClientAcks: rapid.Bool().Draw(t, "cacks"),
			BrokerPubrel: rapid.Bool().Draw(t, "bpubrel"), Suback: rapid.SampledFrom([]string{"", "grant", "fail"}).Draw(t, "suback")}
		if rapid.IntRange(0, 4).Draw(t, "connackmode") > 0 {
			sc.Auto.Connack = gwgen.U8(0)
		}
		// most cases start from a connected session so that the deeper states are reached
		if rapid.IntRange(0, 3).Draw(t, "connected") > 0 {
			sc.Steps = append(sc.Steps, connectSteps(sc.Cfg, "cl", 60)...)
		}
		n := rapid.IntRange(1, 40).Draw(t, "n")
		for i := 0; i < n; i++ {
			var st gwsim.Step
			k := rapid.IntRange(0, 9).Draw(t, "who")
			switch {
			case k == 0:
				st = gwgen.Adv(int64(rapid.SampledFrom([]int{1, 2, 50, 101, 1100, 5200}).Draw(t, "adv")))
			case front == "client" && k == 2 && rapid.Bool().Draw(t, "sleepfrag"):
				// a fragment of the sleep life cycle around the session's keep-alive K: sleeps shorter and
				// longer than K, wake-ups, re-announced sleeps, CONNECT out of sleep, in a drawn order
				K := uint16(rapid.SampledFrom([]int{1, 60}).Draw(t, "fragK"))
				for j := rapid.IntRange(2, 6).Draw(t, "fraglen"); j > 0; j-- {
					var p snref.Pkt
					switch rapid.IntRange(0, 4).Draw(t, "fragkind") {
					case 0:
						p = gwgen.Connect("cl", K, false, rapid.Bool().Draw(t, "fragclean"))
					case 1, 2:
						p = gwgen.Disconnect(rapid.SampledFrom([]uint16{1, K, K + 1, 3 * K, 0}).Draw(t, "fragdur"))
					case 3:
						p = gwgen.Pingreq("cl")
					default:
						p = gwgen.Pingreq("")
					}
					sc.Steps = append(sc.Steps, gwgen.SN(p))
					if rapid.IntRange(0, 3).Draw(t, "fragadv") == 0 {
						sc.Steps = append(sc.Steps, gwgen.Adv(int64(rapid.SampledFrom([]int{1, 150, 1100}).Draw(t, "fragadvms"))))
					}
				}
				continue
			case front == "broker" && k == 4:
				// a proper request from the client, so that an exchange towards the broker is open ...
				mid := uint16(rapid.SampledFrom([]int{1, 2, 3}).Draw(t, "reqmid"))
				switch rapid.IntRange(0, 2).Draw(t, "req") {
				case 0:
					st = gwgen.SN(gwgen.SubscribeName(rapid.SampledFrom([]string{"t/a", "t/#", "ab"}).Draw(t, "reqfilter"), byte(rapid.IntRange(0, 2).Draw(t, "reqqos")), mid))
				case 1:
					st = gwgen.SN(gwgen.Publish(snref.TITShort, snref.ShortID("ab"), byte(rapid.IntRange(1, 2).Draw(t, "reqqos")), mid, []byte("q")))
				default:
					st = gwgen.SN(snref.Pkt{Type: snref.UNSUBSCRIBE, TIT: snref.TITNormal, TopicName: "t/a", MsgID: mid})
				}
			case front == "broker" && k == 5:
				// ... and an answer of the broker to the gateway's latest request: of the right or a wrong
				// kind, a SUBACK with 0-3 return codes
				st = gwsim.Step{K: "mqack", D: int64(rapid.IntRange(0, 15).Draw(t, "ackvariant"))}
			case front == "client" && k == 1:
				// a duplicated datagram: one of the client's last three (its automatic acknowledgements included)
				st = gwsim.Step{K: "snrepeat", D: int64(rapid.IntRange(1, 3).Draw(t, "repeat"))}
			case (front == "client" && k < 7) || (front == "broker" && k < 4):
				st = gwgen.SN(genAnySN(t))
			case front == "client" && k < 9:
				// well-formed broker traffic, so that exchanges are open while the client misbehaves
				st = gwgen.MQ(gwgen.BPublish(rapid.SampledFrom([]string{"ab", "t/a", "new/x", "p/one"}).Draw(t, "topic"), byte(rapid.IntRange(0, 2).Draw(t, "qos")),
					uint16(rapid.SampledFrom([]int{1, 2, 3, 0xffff}).Draw(t, "bmid")), []byte("m"), false, false))
			default:
				st = genAnyMQ(t)
			}
			st.NoWait = rapid.IntRange(0, 4).Draw(t, "nowait") == 0
			sc.Steps = append(sc.Steps, st)
		}
		sc.TailMs = int64(rapid.SampledFrom([]int{0, 150, 2500}).Draw(t, "tail"))
		return c
	}
}

func runHostile(c hostileCase) (r vf.Result) {
	tr := gwsim.Run(c.Script)
	// reaching this line means the process survived the case
	unexpected := 0
	for _, st := range c.Script.Steps {
		if st.K == "sn" && st.SN != nil {
			switch st.SN.Type {
			case snref.CONNECT, snref.PUBLISH, snref.SUBSCRIBE, snref.REGISTER, snref.PINGREQ, snref.DISCONNECT:
			default:
				unexpected++
			}
		}
		if st.K == "mqraw" {
			unexpected++
		}
	}
	r.NonTrivial = unexpected > 0
	if tr.Ended {
		r.Label("session-ended")
	} else {
		r.Label("session-survived")
	}
	if tr.Hung {
		r.Fail("session-hung", "session did not end after cancel and closing both links\n%s", tr.Dump(20))
	}
	r.Label(fmt.Sprintf("front=%s", c.Front))
	return
}

func TestC25Client(t *testing.T) {
	vf.Check(t, vf.Prop[hostileCase]{
		ID: "C25", Name: "hostile-client-to-gateway", Bubble: true, MarkCurrent: true,
		Rule: "1-40 decodable packets from a hostile MQTT-SN client over all 28 types with generated fields (message and topic IDs from small pools so that they hit live exchanges, reserved topic-ID type, QoS 3, zero and maximal durations, sleep/wake), fragments of the sleep life cycle (sleeps shorter and longer than the keep-alive, wake-ups, re-announced sleeps, CONNECT out of sleep, in any order), and repetitions of one of the client's last three datagrams (its automatic REGACK/PUBACK/PUBREC/PUBCOMP replies included), interleaved with well-formed broker publishes (so that broker-initiated exchanges are open), time advances around the retry and poll periods and same-instant injections on both links; retry delays down to 1 ms. Non-trivial = at least one packet arrives that the happy path does not expect in that state (any type other than CONNECT/PUBLISH/SUBSCRIBE/REGISTER/PINGREQ/DISCONNECT); distinct by script.",
		Assumptions: []string{"oracle: the test process survives the case (a panic in any session goroutine kills it); a clean error or termination of the session passes"},
		Gen:         genHostile("client"),
		Run:         runHostile,
	})
}

func TestC25Broker(t *testing.T) {
	vf.Check(t, vf.Prop[hostileCase]{
		ID: "C25", Name: "hostile-broker-to-gateway", Bubble: true, MarkCurrent: true,
		Rule: "1-40 steps against a connected (or not) session: proper client requests answered by the broker with acknowledgements of the right or a wrong kind for that very message ID (SUBACK with 0-3 return codes), packets of all 14 MQTT types from the broker in any state, SUBACKs with 0/2+ return codes, PUBLISH with QoS 3 bits, empty/wildcard/invalid topics, 9000-octet payloads, wrong fixed-header flags, truncated packets, lying remaining lengths and garbage, mixed with client packets of any type and time advances. Non-trivial = at least one malformed or unsolicited broker packet; distinct by script.",
		Gen: genHostile("broker"),
		Run: runHostile,
	})
}
