package gw

import (
	"bytes"
	"fmt"
	"testing"

	"pgregory.net/rapid"

	"verif/harness/gwgen"
	"verif/harness/gwsim"
	"verif/harness/mqttref"
	"verif/harness/sngen"
	"verif/harness/snref"
	"verif/harness/vf"
)

// ---- shared: connect-phase script generator -------------------------------------

type connCase struct {
	Script gwsim.Script `json:"script"`
}

var authMethods = []string{"PLAIN", "PLAIN", "PLAIN", "", "plain", "PLAINX", "SCRAM-SHA-1", "X"}

func genAuth(t *rapid.T) snref.Pkt {
	m := rapid.SampledFrom(authMethods).Draw(t, "method")
	if rapid.IntRange(0, 15).Draw(t, "longmethod") == 0 {
		m = string(bytes.Repeat([]byte{'M'}, rapid.IntRange(250, 255).Draw(t, "mlen")))
	}
	p := snref.Pkt{Type: snref.AUTH, Method: m, Reason: rapid.SampledFrom([]byte{0, 0x18}).Draw(t, "reason")}
	user := rapid.SampledFrom([]string{"alice", "bob", "", "a\xffb", "gwuser"}).Draw(t, "user")
	pass := rapid.SampledFrom([]string{"secret", "", "p w", "gwpass"}).Draw(t, "pass")
	switch rapid.IntRange(0, 7).Draw(t, "authdata") {
	case 0: // one NUL only
		p.Data = append([]byte(user), 0)
		p.Data = append(p.Data, pass...)
	case 1: // three NULs
		p.Data = append(snref.PlainAuth(user, []byte(pass)), 0, 'x')
	case 2: // empty
		p.Data = nil
	case 3: // with authorization identity
		p.Data = append([]byte("authz"), snref.PlainAuth(user, []byte(pass))...)
	default:
		p.Data = snref.PlainAuth(user, []byte(pass))
	}
	return p
}

func genWillTopic(t *rapid.T) snref.Pkt {
	name := rapid.SampledFrom([]string{"w/t", "will/topic/2", "", "x", "ab", string(bytes.Repeat([]byte{'w'}, 255))}).Draw(t, "wname")
	return gwgen.WillTopic(name, byte(rapid.IntRange(0, 2).Draw(t, "wqos")), rapid.Bool().Draw(t, "wretain"))
}

func genWillMsg(t *rapid.T) snref.Pkt {
	n := rapid.SampledFrom([]int{0, 1, 3, 250, 256}).Draw(t, "wlen")
	return gwgen.WillMsg(vf.Payload{N: n, Fill: rapid.Byte().Draw(t, "wfill")}.Bytes())
}

// genRefusalCode draws a non-zero CONNACK return code: the five MQTT 3.1.1 defines and values it
// reserves (a broker speaking a later protocol version, or a broken one, sends e.g. 0x80..0x9f);
// "accepted" is code 0 and nothing else.
func genRefusalCode(t *rapid.T) byte {
	return rapid.SampledFrom([]byte{1, 2, 3, 4, 5, 5, 6, 0x10, 0x7f, 0x80, 0x86, 0x87, 0x9f, 0xfd, 0xfe, 0xff}).Draw(t, "refusal")
}

// genConnectPhase draws 1-3 connect exchanges made of CONNECT followed by any
// order and multiplicity of AUTH / WILLTOPIC / WILLMSG, with small time gaps.
func genConnectPhase(t *rapid.T, allowKeepalive0 bool) gwsim.Script {
	sc := gwsim.Script{Cfg: gwgen.Cfg(t)}
	sc.Cfg.RetryDelayMs = 10000
	switch rapid.IntRange(0, 7).Draw(t, "connack") {
	case 0:
	case 1, 2:
		sc.Auto.Connack = gwgen.U8(genRefusalCode(t))
	default:
		sc.Auto.Connack = gwgen.U8(0)
	}
	maybeEager(t, &sc)
	nex := rapid.IntRange(1, 3).Draw(t, "exchanges")
	for x := 0; x < nex; x++ {
		ka := uint16(60)
		if allowKeepalive0 {
			ka = rapid.SampledFrom([]uint16{60, 60, 60, 1, 0xffff, 0}).Draw(t, "keepalive")
		}
		will := rapid.Bool().Draw(t, "will")
		cid := rapid.SampledFrom([]string{"cl", "client-2", "c"}).Draw(t, "cid")
		sc.Steps = append(sc.Steps, gwgen.SN(gwgen.Connect(cid, ka, will, rapid.Bool().Draw(t, "clean"))))
		// the documented order, then perturbed
		var follow []snref.Pkt
		wellFormed := rapid.IntRange(0, 2).Draw(t, "wellformed") == 0
		if wellFormed {
			if sc.Cfg.Auth {
				follow = append(follow, gwgen.AuthPlain("alice", []byte("secret")))
			}
			if will {
				follow = append(follow, genWillTopic(t), genWillMsg(t))
			}
		} else {
			n := rapid.IntRange(0, 5).Draw(t, "nfollow")
			for i := 0; i < n; i++ {
				switch rapid.IntRange(0, 2).Draw(t, "kind") {
				case 0:
					follow = append(follow, genAuth(t))
				case 1:
					follow = append(follow, genWillTopic(t))
				default:
					follow = append(follow, genWillMsg(t))
				}
			}
		}
		for _, p := range follow {
			if rapid.IntRange(0, 3).Draw(t, "gap") == 0 {
				sc.Steps = append(sc.Steps, gwgen.Adv(int64(rapid.SampledFrom([]int{1, 100, 1000}).Draw(t, "gapms"))))
			}
			sc.Steps = append(sc.Steps, gwgen.SN(p))
		}
	}
	sc.TailMs = 200
	return sc
}

// ---- exchange model over a trace ---------------------------------------------------

type exchange struct {
	start      int // event index of the CONNECT datagram
	connect    snref.Pkt
	auths      []snref.Pkt // AUTH datagrams of this exchange, in order
	goodAuths  [][2][]byte // well-formed PLAIN credentials seen so far (user, pass)
	willTopics []snref.Pkt
	willMsgs   []snref.Pkt
	mqConnects int
	topicReqs  int
	msgReqs    int
	closed     bool // broker answered / keep-alive-0 refusal / unknown method
}

func plainCreds(p snref.Pkt) ([2][]byte, bool) {
	if p.Method != "PLAIN" {
		return [2][]byte{}, false
	}
	parts := bytes.Split(p.Data, []byte{0})
	if len(parts) != 3 {
		return [2][]byte{}, false
	}
	return [2][]byte{parts[1], parts[2]}, true
}

func rcName(rc byte) string {
	return []string{"accepted", "congestion", "invalid-topic-id", "not-supported"}[rc&3]
}

// checkConnect walks a trace and applies the C08 and C09 judgements. which
// selects the property ("C08" / "C09").
func checkConnect(which string, cfg gwsim.Config, tr *gwsim.Trace, r *vf.Result) {
	var ex *exchange
	pendingBrokerConnect := false // an MQTT CONNECT is waiting for the broker's CONNACK
	var expectConnack *byte       // the client CONNACK the next gateway datagrams must contain
	expectFrom := 0
	ended := false
	nontrivial := false
	for i, e := range tr.Events {
		if e.Dir == gwsim.EV && e.What == "END" {
			ended = true
		}
		if ended {
			break
		}
		switch {
		case e.Dir == gwsim.CG && e.SN != nil:
			p := *e.SN
			switch p.Type {
			case snref.CONNECT:
				if p.Duration == 0 {
					// refused outright: neither opens an exchange nor cancels the open one
					nontrivial = true
					r.Label("keepalive0")
					break
				}
				ex = &exchange{start: i, connect: p}
				pendingBrokerConnect = false
			case snref.AUTH:
				if ex != nil {
					if len(ex.auths) > 0 || !cfg.Auth || ex.mqConnects > 0 {
						nontrivial = true
					}
					ex.auths = append(ex.auths, p)
					if c, ok := plainCreds(p); ok {
						ex.goodAuths = append(ex.goodAuths, c)
					} else {
						nontrivial = true
					}
				}
			case snref.WILLTOPIC:
				if ex != nil {
					if !ex.connect.Will || len(ex.willTopics) > 0 || (cfg.Auth && len(ex.goodAuths) == 0) {
						nontrivial = true
					}
					ex.willTopics = append(ex.willTopics, p)
				}
			case snref.WILLMSG:
				if ex != nil {
					if !ex.connect.Will || len(ex.willTopics) == 0 || len(ex.willMsgs) > 0 {
						nontrivial = true
					}
					ex.willMsgs = append(ex.willMsgs, p)
				}
			}
		case e.Dir == gwsim.GC && e.SN != nil:
			p := *e.SN
			switch p.Type {
			case snref.WILLTOPICREQ:
				if which != "C09" {
					break
				}
				if ex == nil || !ex.connect.Will {
					r.Fail("willtopicreq-without-will-flag", "WILLTOPICREQ sent although the CONNECT has no Will flag\n%s", tr.Dump(25))
				} else {
					if ex.msgReqs > 0 {
						// a second WILLTOPICREQ after WILLMSGREQ is not an order the property fixes
					}
					if cfg.Auth && len(ex.goodAuths) == 0 {
						r.Fail("willtopicreq-before-auth", "WILLTOPICREQ sent before a well-formed AUTH with authentication on\n%s", tr.Dump(25))
					}
					ex.topicReqs++
				}
			case snref.WILLMSGREQ:
				if which != "C09" {
					break
				}
				if ex == nil || !ex.connect.Will {
					r.Fail("willmsgreq-without-will-flag", "WILLMSGREQ sent although the CONNECT has no Will flag\n%s", tr.Dump(25))
				} else if len(ex.willTopics) == 0 {
					r.Fail("willmsgreq-before-willtopic", "WILLMSGREQ sent before any WILLTOPIC of this exchange\n%s", tr.Dump(25))
				} else {
					ex.msgReqs++
				}
			case snref.CONNACK:
				if which == "C09" && expectConnack != nil {
					if p.RC != *expectConnack {
						r.Fail("connack-code/want="+rcName(*expectConnack)+",got="+rcName(p.RC), "client CONNACK %d, expected %d\n%s", p.RC, *expectConnack, tr.Dump(25))
					}
					expectConnack = nil
				}
			}
		case e.Dir == gwsim.GC && e.SN == nil:
			// undecodable gateway datagram: C23's business; it may be the expected CONNACK
			expectConnack = nil
		case e.Dir == gwsim.GB && e.MQ != nil && e.MQ.Type == mqttref.CONNECT:
			m := *e.MQ
			if ex == nil {
				r.Fail("mqtt-connect-without-exchange", "MQTT CONNECT sent before any CONNECT datagram\n%s", tr.Dump(25))
				break
			}
			ex.mqConnects++
			pendingBrokerConnect = true
			if which == "C09" {
				if ex.mqConnects > 1 {
					r.Fail("second-mqtt-connect-in-exchange", "connect exchange produced %d MQTT CONNECTs\n%s", ex.mqConnects, tr.Dump(25))
				}
				if ex.connect.Will {
					if len(ex.willMsgs) == 0 {
						r.Fail("mqtt-connect-before-willmsg", "Will flag set but MQTT CONNECT sent before any WILLMSG of this exchange\n%s", tr.Dump(25))
					} else if len(ex.willTopics) > 0 {
						wt := ex.willTopics[len(ex.willTopics)-1]
						wm := ex.willMsgs[len(ex.willMsgs)-1]
						okTopic := false
						for _, c := range ex.willTopics { // any WILLTOPIC of the exchange (repeats are not ordered by the property)
							if m.WillTopic == c.TopicName && m.WillQoS() == c.QoS && m.WillRetain() == c.Retain {
								okTopic = true
							}
						}
						okMsg := false
						for _, c := range ex.willMsgs {
							if bytes.Equal(m.WillMsg, c.Data) {
								okMsg = true
							}
						}
						anyEmpty := false
						for _, c := range ex.willTopics {
							if c.EmptyForm || c.TopicName == "" {
								anyEmpty = true
							}
						}
						if !m.WillFlag() {
							if !anyEmpty { // an empty WILLTOPIC means "no will" (spec 5.4.7); which of repeated WILLTOPICs counts is not fixed
								r.Fail("will-dropped", "CONNECT datagram had the Will flag and a will topic, MQTT CONNECT has no will\n%s", tr.Dump(25))
							}
						} else if !okTopic {
							r.Fail("will-topic-differs", "MQTT CONNECT will topic=%q qos=%d retain=%v; client sent topic=%q qos=%d retain=%v\n%s",
								m.WillTopic, m.WillQoS(), m.WillRetain(), wt.TopicName, wt.QoS, wt.Retain, tr.Dump(25))
						} else if !okMsg {
							r.Fail("will-message-differs", "MQTT CONNECT will message % x, client sent % x\n%s", m.WillMsg, wm.Data, tr.Dump(25))
						}
					}
				} else if m.WillFlag() {
					r.Fail("will-without-will-flag", "MQTT CONNECT carries a will although the CONNECT datagram had no Will flag\n%s", tr.Dump(25))
				}
				if m.ClientID != string(ex.connect.ClientID) || m.KeepAlive != ex.connect.Duration || m.CleanSession() != ex.connect.Clean {
					r.Fail("connect-fields-differ", "MQTT CONNECT id=%q keepalive=%d clean=%v, datagram id=%q duration=%d clean=%v",
						m.ClientID, m.KeepAlive, m.CleanSession(), ex.connect.ClientID, ex.connect.Duration, ex.connect.Clean)
				}
			}
			if which == "C08" {
				if cfg.Auth {
					if len(ex.goodAuths) == 0 {
						via := "?"
						if j := lastClientPkt(tr, i); j >= 0 {
							via = snref.TypeName(tr.Events[j].SN.Type)
						}
						r.Fail("connect-sent-without-auth/via="+via, "authentication is on but the MQTT CONNECT was sent without a well-formed PLAIN AUTH in this exchange\n%s", tr.Dump(25))
					} else {
						ok := false
						for _, c := range ex.goodAuths {
							if m.HasUser() && m.HasPassword() && m.User == string(c[0]) && bytes.Equal(m.Password, c[1]) {
								ok = true
							}
						}
						if !ok {
							r.Fail("connect-credentials-differ-from-auth", "MQTT CONNECT user=%q(%v) pass=%q(%v), AUTH carried %q / %q\n%s",
								m.User, m.HasUser(), m.Password, m.HasPassword(), ex.goodAuths[len(ex.goodAuths)-1][0], ex.goodAuths[len(ex.goodAuths)-1][1], tr.Dump(25))
						}
					}
				} else {
					wantUser, wantPass := cfg.GwUser != nil, cfg.GwPass != nil
					bad := m.HasUser() != wantUser || m.HasPassword() != wantPass
					if wantUser && m.User != *cfg.GwUser {
						bad = true
					}
					if wantPass && !bytes.Equal(m.Password, cfg.GwPass) {
						bad = true
					}
					if bad {
						kind := "connect-credentials-differ-from-config"
						if len(ex.auths) > 0 {
							kind += "/after-client-auth"
						}
						r.Fail(kind, "authentication is off: MQTT CONNECT user=%q(%v) pass=%q(%v), configured user=%v pass=%q\n%s",
							m.User, m.HasUser(), m.Password, m.HasPassword(), strp(cfg.GwUser), cfg.GwPass, tr.Dump(25))
					}
				}
			}
		case e.Dir == gwsim.BG && e.MQ != nil && e.MQ.Type == mqttref.CONNACK:
			if pendingBrokerConnect {
				pendingBrokerConnect = false
				want := byte(1)
				if e.MQ.RC == 0 {
					want = 0
				} else {
					nontrivial = true
					r.Label("broker-refused")
				}
				expectConnack, expectFrom = &want, i
			}
		}
		// obligations that must have been met by the time the next script step starts
		if next := i + 1; next == len(tr.Events) || tr.Events[next].Dir == gwsim.CG || tr.Events[next].Dir == gwsim.EV {
			if which == "C09" && expectConnack != nil && next < len(tr.Events) && tr.Events[next].What != "END" && tr.Events[next].What != "MQEOF" {
				r.Fail("connack-missing/want="+rcName(*expectConnack), "broker answered CONNACK at event %d but the client got no CONNACK\n%s", expectFrom, tr.Dump(25))
				expectConnack = nil
			}
		}
	}
	// per-exchange obligations judged at the end of each exchange are folded into
	// the walk above; what remains: keep-alive 0 and unknown-method replies.
	checkRefusals(which, cfg, tr, r)
	r.NonTrivial = r.NonTrivial || nontrivial
}

func strp(s *string) string {
	if s == nil {
		return "<nil>"
	}
	return *s
}

func lastClientPkt(tr *gwsim.Trace, before int) int {
	for j := before - 1; j >= 0; j-- {
		if tr.Events[j].Dir == gwsim.CG && tr.Events[j].SN != nil {
			return j
		}
	}
	return -1
}

// checkRefusals: for each client datagram that must be refused, look at what the
// gateway sent between it and the next client datagram.
func checkRefusals(which string, cfg gwsim.Config, tr *gwsim.Trace, r *vf.Result) {
	// model of the documented exchange order: which packet the exchange waits for
	const (
		closed = iota
		awaitAuth
		awaitWillTopic
		awaitWillMsg
		awaitConnack
	)
	st := closed
	will := false
	// failedBefore: an earlier packet of this session was refused (zero keep-alive, unknown AUTH
	// method, malformed PLAIN data): the session may be on its way out since then
	failedBefore := false
	for i, e := range tr.Events {
		if e.Dir == gwsim.EV && e.What == "END" {
			return
		}
		if e.Dir == gwsim.BG && e.MQ != nil && e.MQ.Type == mqttref.CONNACK && st == awaitConnack {
			st = closed
		}
		if e.Dir != gwsim.CG || e.SN == nil {
			continue
		}
		// responses up to the next client datagram
		var resp []gwsim.Event
		for j := i + 1; j < len(tr.Events) && tr.Events[j].Dir != gwsim.CG; j++ {
			resp = append(resp, tr.Events[j])
		}
		// a session that ends within one poll interval of this datagram was already
		// shutting down when it arrived: nothing is owed
		doomed := tr.Ended && tr.EndNs <= e.Ns+101e6
		hasConnack := func(rc byte) bool {
			for _, x := range resp {
				if x.Dir == gwsim.GC && (x.SN == nil || (x.SN.Type == snref.CONNACK && x.SN.RC == rc)) {
					return true // an undecodable datagram is C23's finding, not ours
				}
			}
			return false
		}
		mqConnect := func() bool {
			for _, x := range resp {
				if x.Dir == gwsim.GB && x.MQ != nil && x.MQ.Type == mqttref.CONNECT {
					return true
				}
			}
			return false
		}
		owe := func(kind, what string, ok bool) {
			if !ok && !doomed {
				r.Fail(kind, "%s\n%s", what, tr.Dump(25))
			}
		}
		afterAuth := func() {
			if will {
				st = awaitWillTopic
				if which == "C09" {
					owe("willtopicreq-missing", "exchange with Will flag reached the will stage but no WILLTOPICREQ was sent", hasType(resp, snref.WILLTOPICREQ))
				}
			} else {
				st = awaitConnack
				if which == "C09" {
					owe("mqtt-connect-missing", "exchange complete but no MQTT CONNECT was sent", mqConnect())
				}
			}
		}
		p := *e.SN
		switch p.Type {
		case snref.CONNECT:
			if p.Duration == 0 {
				if which == "C09" {
					owe("keepalive0-no-not-supported", "CONNECT with zero keep-alive was not answered with CONNACK(not supported)", hasConnack(3))
					if mqConnect() {
						r.Fail("mqtt-connect-for-keepalive0", "MQTT CONNECT sent for zero keep-alive\n%s", tr.Dump(25))
					}
				}
				failedBefore = true
				break
			}
			will = p.Will
			if cfg.Auth {
				st = awaitAuth
			} else {
				afterAuth()
			}
		case snref.AUTH:
			if st != awaitAuth {
				break
			}
			if p.Method != "PLAIN" {
				if which == "C08" {
					r.NonTrivial = true
					r.Label("unknown-auth-method")
					// The method is looked at before anything else of the packet: the answer is owed also by a
					// session which ends right afterwards, unless an earlier packet of the session was
					// refused already or anything but a plain CONNECT arrived within the last poll interval
					// before the end (the session may have been on its way out), or the 5 s connect timeout
					// is due.
					earlier := false // another datagram than a plain CONNECT within the last poll interval before the end
					for j := 0; j < i; j++ {
						if x := tr.Events[j]; x.Dir == gwsim.CG && x.Ns >= tr.EndNs-101e6 && (x.SN == nil || x.SN.Type != snref.CONNECT || x.SN.Duration == 0) {
							earlier = true
						}
					}
					if !hasConnack(3) && !(doomed && (failedBefore || earlier || e.Ns >= 4900e6)) {
						r.Fail("unknown-auth-method-no-not-supported", "AUTH with method %q awaited by an open exchange was not answered with CONNACK(not supported)\n%s", p.Method, tr.Dump(25))
					}
					if mqConnect() {
						r.Fail("unknown-auth-method-connect-sent", "MQTT CONNECT sent after an AUTH with unknown method %q\n%s", p.Method, tr.Dump(25))
					}
				}
				st, failedBefore = closed, true
			} else if _, ok := plainCreds(p); ok {
				afterAuth()
			} else {
				st, failedBefore = closed, true // malformed PLAIN data: the exchange fails
			}
		case snref.WILLTOPIC:
			if st == awaitWillTopic {
				st = awaitWillMsg
				if which == "C09" {
					owe("willmsgreq-missing", "awaited WILLTOPIC was not followed by WILLMSGREQ", hasType(resp, snref.WILLMSGREQ))
				}
			}
		case snref.WILLMSG:
			if st == awaitWillMsg {
				st = awaitConnack
				if which == "C09" {
					owe("mqtt-connect-missing", "awaited WILLMSG was not followed by the MQTT CONNECT", mqConnect())
				}
			}
		}
	}
}

func hasType(evs []gwsim.Event, typ byte) bool {
	for _, x := range evs {
		if x.Dir == gwsim.GC && (x.SN == nil || x.SN.Type == typ) {
			return true
		}
	}
	return false
}

func sessionEndsIn(evs []gwsim.Event) bool {
	for _, x := range evs {
		if x.Dir == gwsim.EV && x.What == "END" {
			return true
		}
	}
	return false
}

func TestC08(t *testing.T) {
	vf.Check(t, vf.Prop[connCase]{
		ID: "C08", Name: "auth-enforced", Bubble: true,
		Rule: "1-3 connect exchanges per session: CONNECT (will on/off) followed either by the documented AUTH/WILLTOPIC/WILLMSG order or by 0-5 of those packets in any order and multiplicity; AUTH payloads: PLAIN well-formed (arbitrary bytes), wrong number of NULs, empty, other method names incl. empty and 250-255 octets; auth on/off; gateway credentials none/user/user+password; broker CONNACK accept/refuse/silent. Non-trivial = exchange in which an AUTH is missing, repeated, late, malformed, of unknown method, or unsolicited (auth off); distinct by script.",
		Gen: func(t *rapid.T) connCase { return connCase{genConnectPhase(t, false)} },
		Run: func(c connCase) (r vf.Result) {
			tr := gwsim.Run(c.Script)
			checkConnect("C08", c.Script.Cfg, tr, &r)
			if c.Script.Cfg.Auth {
				r.Label("auth-on")
			} else {
				r.Label("auth-off")
			}
			return
		},
	})
}

func TestC09(t *testing.T) {
	vf.Check(t, vf.Prop[connCase]{
		ID: "C09", Name: "will-protocol", Bubble: true,
		Rule: "as C08's generator plus keep-alive in {0,1,60,65535}, will topics (empty, 1, 2, 255 octets), will messages (0..256 octets), will QoS/retain, broker CONNACK codes 0-5 and silence, duplicated WILL*/AUTH packets. Non-trivial = Will flag with WILL* packets out of order, missing or duplicated; or a non-zero broker code; or keep-alive 0; distinct by script.",
		Assumptions: []string{"when a WILLMSG arrives without any WILLTOPIC in the exchange, what 'the client's will topic' is, is undefined: only C24 judges that CONNECT"},
		Gen: func(t *rapid.T) connCase { return connCase{genConnectPhase(t, true)} },
		Run: func(c connCase) (r vf.Result) {
			tr := gwsim.Run(c.Script)
			checkConnect("C09", c.Script.Cfg, tr, &r)
			return
		},
	})
}

// ---- C07 ---------------------------------------------------------------------------

func genPreAdmission(t *rapid.T) gwsim.Script {
	sc := gwsim.Script{Cfg: gwgen.Cfg(t)}
	sc.Cfg.RetryDelayMs = 10000
	sc.Cfg.Predef = map[string]map[uint16]string{"*": {1: "pre/one"}, "cl": {2: "pre/two"}}
	switch rapid.IntRange(0, 3).Draw(t, "connack") {
	case 0:
	case 1:
		sc.Auto.Connack = gwgen.U8(genRefusalCode(t))
	default:
		sc.Auto.Connack = gwgen.U8(0)
	}
	sc.Auto.BrokerAcks = true
	sc.Auto.Suback = "grant"
	maybeEager(t, &sc)
	n := rapid.IntRange(1, 8).Draw(t, "n")
	for i := 0; i < n; i++ {
		var p snref.Pkt
		kind := rapid.IntRange(0, 14).Draw(t, "kind")
		if kind == 14 {
			// a CONNACK from the broker at this point of the history: late (the broker was silent so
			// far), a duplicate, or unsolicited
			rc := byte(0)
			if rapid.IntRange(0, 3).Draw(t, "scripted_refusal") == 0 {
				rc = genRefusalCode(t)
			}
			sc.Steps = append(sc.Steps, gwgen.MQ(mqttref.Pkt{Type: mqttref.CONNACK, RC: rc}))
			continue
		}
		switch kind {
		case 0, 1:
			p = gwgen.Connect(rapid.SampledFrom([]string{"cl", "cl", "c2"}).Draw(t, "cid"), rapid.SampledFrom([]uint16{60, 60, 0}).Draw(t, "ka"), rapid.Bool().Draw(t, "will"), true)
		case 2:
			p = gwgen.AuthPlain("alice", []byte("pw"))
		case 3:
			p = gwgen.WillTopic("w/t", 0, false)
		case 4:
			p = gwgen.WillMsg([]byte("w"))
		case 5:
			p = gwgen.Disconnect(rapid.SampledFrom([]uint16{0, 0, 5, 60, 600}).Draw(t, "sleep"))
			if p.Duration == 0 && rapid.Bool().Draw(t, "explicit_zero") {
				// the Duration field present with the value 0 (04 18 00 00): still a plain DISCONNECT
				p.NoDuration, p.ForceDuration = false, true
			}
		case 6:
			p = gwgen.Pingreq(rapid.SampledFrom([]string{"", "cl"}).Draw(t, "pingcid"))
		case 7, 8:
			p = gwgen.Publish(byte(rapid.IntRange(0, 3).Draw(t, "tit")), rapid.SampledFrom([]uint16{1, 2, 3, 0x6162}).Draw(t, "tid"),
				byte(rapid.SampledFrom([]int{3, 3, 0, 1, 2}).Draw(t, "qos")), rapid.SampledFrom([]uint16{0, 1, 7}).Draw(t, "mid"), []byte("data"))
		case 9:
			p = gwgen.Register("some/topic", 1)
		case 10:
			p = gwgen.SubscribeName("some/+", 1, 2)
		default:
			p = sngen.LegalPkt(t, sngen.AnyType().Draw(t, "anytype"))
			if len(p.Data) > 40 {
				p.Data = p.Data[:40]
			}
			if len(p.TopicName) > 40 {
				p.TopicName = p.TopicName[:40]
			}
			if len(p.ClientID) > 23 {
				p.ClientID = p.ClientID[:23]
			}
			if len(p.GwAddr) > 16 {
				p.GwAddr = p.GwAddr[:16]
			}
			if len(p.Method) > 16 {
				p.Method = p.Method[:16]
			}
		}
		sc.Steps = append(sc.Steps, gwgen.SN(p))
		if rapid.IntRange(0, 5).Draw(t, "gap") == 0 {
			sc.Steps = append(sc.Steps, gwgen.Adv(int64(rapid.SampledFrom([]int{50, 150, 1000}).Draw(t, "gapms"))))
		}
	}
	sc.TailMs = 300
	return sc
}

func TestC07(t *testing.T) {
	vf.Check(t, vf.Prop[connCase]{
		ID: "C07", Name: "no-admission-without-broker", Bubble: true,
		Rule: "1-8 client packets sent to a fresh session before/around a connect exchange, over every packet type (CONNECT with/without will and zero keep-alive, AUTH, WILLTOPIC, WILLMSG, REGISTER, PUBLISH with all QoS/topic-ID types, SUBSCRIBE, PINGREQ with/without client ID, DISCONNECT with/without sleep duration, and any of the 28 types with generated fields), auth on/off, broker CONNACK accept/refuse/silent. Non-trivial = >= 2 packets before admission with at least one that is not CONNECT; distinct by script.",
		Assumptions: []string{"a plain DISCONNECT before admission is answered and forwarded by design (the existing tests rely on it): tolerated", "AUTH/WILLTOPIC/WILLMSG without an open exchange are ignored by design: tolerated"},
		Gen:         func(t *rapid.T) connCase { return connCase{genPreAdmission(t)} },
		Run: func(c connCase) (r vf.Result) {
			tr := gwsim.Run(c.Script)
			checkAdmission(c.Script.Cfg, tr, &r)
			return
		},
	})
}

// checkAdmission is the C07 monitor.
func checkAdmission(cfg gwsim.Config, tr *gwsim.Trace, r *vf.Result) {
	admitted := false     // the broker accepted an MQTT CONNECT of this session
	connectSentForCurrent := false // an MQTT CONNECT went out since the client's latest CONNECT datagram
	acceptedCurrent := false       // ... and the broker answered CONNACK(accepted) after it
	sleptSinceAdmission := false   // an admitted client announced a sleep: its later CONNECT is answered by the gateway itself
	brokerConnects := 0   // MQTT CONNECTs sent
	var illegalAt = -1    // event index of the first pre-admission packet that must end the session
	var illegalNs int64
	illegalName := ""
	pre, preNonConnect := 0, 0
	for i, e := range tr.Events {
		if e.Dir == gwsim.CG && e.SN != nil {
			switch {
			case e.SN.Type == snref.CONNECT:
				// a CONNECT which the gateway refuses at once (zero keep-alive, protocol ID, client ID)
				// opens no exchange and leaves a pending one alone
				refused := false
				for j := i + 1; j < len(tr.Events) && tr.Events[j].Dir != gwsim.CG; j++ {
					if x := tr.Events[j]; x.Dir == gwsim.GC && x.SN != nil && x.SN.Type == snref.CONNACK && x.SN.RC != 0 {
						refused = true
					}
				}
				if !refused {
					connectSentForCurrent, acceptedCurrent = false, false
				}
			case e.SN.Type == snref.DISCONNECT && e.SN.Duration > 0 && admitted:
				sleptSinceAdmission = true
			}
		}
		switch {
		case e.Dir == gwsim.EV && e.What == "END":
			goto done
		case e.Dir == gwsim.BG && e.MQ != nil && e.MQ.Type == mqttref.CONNACK && e.MQ.RC == 0 && brokerConnects > 0:
			if illegalAt < 0 {
				admitted = true
			}
			if connectSentForCurrent {
				acceptedCurrent = true
			}
		case e.Dir == gwsim.GB && e.MQ != nil:
			if e.MQ.Type == mqttref.CONNECT {
				brokerConnects++
				connectSentForCurrent = true
			}
			if illegalAt >= 0 {
				r.Fail("forwarded-after-illegal-packet/"+illegalName, "%v reached the broker after the pre-admission %s at event %d\n%s", *e.MQ, illegalName, illegalAt, tr.Dump(25))
			} else if !admitted {
				switch e.MQ.Type {
				case mqttref.CONNECT, mqttref.DISCONNECT:
				case mqttref.PUBLISH:
					if cfg.Auth {
						r.Fail("publish-forwarded-before-admission/auth-on", "%v forwarded before admission with authentication on\n%s", *e.MQ, tr.Dump(25))
					} else if j := lastClientPkt(tr, i); j < 0 || tr.Events[j].SN.Type != snref.PUBLISH || tr.Events[j].SN.QoS != 3 ||
						(tr.Events[j].SN.TIT != snref.TITShort && tr.Events[j].SN.TIT != snref.TITPredefined) {
						r.Fail("publish-forwarded-before-admission", "%v forwarded before admission and not for a QoS -1 short/predefined PUBLISH\n%s", *e.MQ, tr.Dump(25))
					}
				default:
					r.Fail("traffic-forwarded-before-admission/"+mqttref.TypeName(e.MQ.Type), "%v reached the broker before the broker accepted a CONNECT\n%s", *e.MQ, tr.Dump(25))
				}
			}
		case e.Dir == gwsim.GC && e.SN != nil && e.SN.Type == snref.CONNACK && e.SN.RC == 0:
			if !admitted {
				via := "?"
				if j := lastClientPkt(tr, i); j >= 0 {
					via = snref.TypeName(tr.Events[j].SN.Type)
				}
				r.Fail("connack-accepted-without-broker/via="+via, "client told CONNACK(accepted) but the broker has not accepted any CONNECT in this session\n%s", tr.Dump(25))
			} else if !acceptedCurrent && !sleptSinceAdmission {
				r.Fail("connack-accepted-for-another-exchange", "client told CONNACK(accepted), but since its latest CONNECT datagram either no MQTT CONNECT was sent for it or the broker has not accepted it (the acceptance seen belongs to an earlier exchange)\n%s", tr.Dump(25))
			}
		case e.Dir == gwsim.CG && e.SN != nil && !admitted && illegalAt < 0:
			p := *e.SN
			pre++
			if p.Type != snref.CONNECT {
				preNonConnect++
			}
			legal := false
			switch p.Type {
			case snref.CONNECT, snref.AUTH, snref.WILLTOPIC, snref.WILLMSG:
				legal = true
			case snref.DISCONNECT:
				legal = p.Duration == 0
			case snref.PUBLISH:
				legal = !cfg.Auth && p.QoS == 3 && (p.TIT == snref.TITShort || p.TIT == snref.TITPredefined)
			}
			if !legal {
				illegalAt, illegalNs = i, e.Ns
				illegalName = snref.TypeName(p.Type)
				if p.Type == snref.DISCONNECT {
					illegalName = "DISCONNECT-with-duration"
				}
			}
		}
	}
done:
	r.NonTrivial = pre >= 2 && preNonConnect >= 1
	if admitted {
		r.Label("admitted")
	}
	if illegalAt >= 0 {
		r.Label("illegal:" + illegalName)
		const bound = int64(100+1) * 1e6
		if !tr.Ended {
			r.Fail("illegal-packet-tolerated/"+illegalName, "a %s before admission did not end the session\n%s", illegalName, tr.Dump(25))
		} else if tr.EndNs > illegalNs+bound {
			r.Fail("illegal-packet-session-ends-late/"+illegalName, "session ended %.3f s after the illegal %s", float64(tr.EndNs-illegalNs)/1e9, illegalName)
		}
	}
	_ = fmt.Sprint
}
