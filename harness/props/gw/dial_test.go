package gw

import (
	"context"
	"net"
	"time"

	"github.com/energomonitor/bisquitt/gateway"
	"github.com/energomonitor/bisquitt/topics"
	"github.com/energomonitor/bisquitt/util"

	"verif/harness/gwgen"
	"verif/harness/gwsim"
	"verif/harness/memnet"
	"verif/harness/snref"
	"verif/harness/vf"
)

func runDialCase(c dialCase) (r vf.Result) {
	r.NonTrivial = true
	l, err := net.Listen("tcp", "127.0.0.1:0")
	if err != nil {
		r.Skip = true
		return
	}
	addr := l.Addr().(*net.TCPAddr)
	l.Close() // nobody listens there any more
	shared := gateway.VerifNewShared(gateway.VerifSessionConfig{MqttBrokerAddress: addr, MqttConnectionTimeout: time.Second,
		AuthEnabled: c.Auth, RetryDelay: time.Second, RetryCount: 1})
	ctx, cancel := context.WithCancel(context.Background()) // the gateway keeps running
	defer cancel()
	before := len(gwsim.Census())
	var links []*memnet.Link
	for i := 0; i < c.Sessions; i++ {
		sn := memnet.NewDatagram("dial")
		links = append(links, sn)
		if c.FirstPkt {
			sn.Send(snref.Encode(gwgen.Connect("cl", 60, false, true)))
		}
		done := make(chan struct{})
		go func() {
			gateway.VerifRunSession(ctx, shared, topics.PredefinedTopics{}, util.NoOpLogger{}, sn.Conn(), nil, gateway.VerifSessionOpts{})
			close(done)
		}()
		select {
		case <-done:
		case <-time.After(2 * time.Second):
			r.Skip = true // inconclusive, not a violation
			return
		}
	}
	// give exiting goroutines a moment (real scheduler)
	var leaked []string
	for i := 0; i < 20; i++ {
		time.Sleep(10 * time.Millisecond)
		leaked = gwsim.Census()
		if len(leaked) <= before {
			break
		}
	}
	if len(leaked) > before {
		r.Fail("goroutine-outlives-session/dial-failure", "%d session(s) ended because the broker is unreachable, the gateway is still running, and %d goroutine(s) of those sessions are still alive: %v", c.Sessions, len(leaked)-before, leaked)
	}
	// the client is told CONNACK(congestion)
	for _, sn := range links {
		ok := false
		for _, rec := range sn.All() {
			if p, _, err := snref.Decode(rec.Data, false); err == nil && p.Type == snref.CONNACK && p.RC == 1 {
				ok = true
			}
		}
		if !ok {
			r.Label("no-connack-congestion")
		}
	}
	return
}
