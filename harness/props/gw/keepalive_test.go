package gw

import (
	"fmt"
	"testing"

	"pgregory.net/rapid"

	"verif/harness/gwgen"
	"verif/harness/gwsim"
	"verif/harness/mqttref"
	"verif/harness/snref"
	"verif/harness/vf"
)

// ---- C12: broker keep-alive is kept for connected and sleeping clients ----------------------

type kaCase struct {
	K      int          `json:"keepalive_s"`
	Phases []string     `json:"phases"`
	Script gwsim.Script `json:"script"`
}

func genKeepAlive(t *rapid.T) kaCase {
	c := kaCase{K: rapid.SampledFrom([]int{1, 2, 5, 10, 30, 30, 30, 256}).Draw(t, "K")}
	sc := &c.Script
	sc.Cfg = gwgen.Cfg(t)
	sc.Cfg.RetryDelayMs = 10000
	sc.Auto = gwsim.Auto{Connack: gwgen.U8(0), BrokerAcks: true, ClientRegack: true, ClientAcks: true, BrokerPubrel: true, Suback: "grant"}
	maybeEager(t, sc)
	K := int64(c.K) * 1000
	add := func(s ...gwsim.Step) { sc.Steps = append(sc.Steps, s...) }
	add(connectSteps(sc.Cfg, "cl", uint16(c.K))...)
	elapsed := int64(0)
	horizon := K * int64(rapid.IntRange(6, 20).Draw(t, "horizon"))
	frac := func(label string, lo, hi int) int64 { // a fraction (percent) of K
		return K * int64(rapid.IntRange(lo, hi).Draw(t, label)) / 100
	}
	for elapsed < horizon {
		if rapid.IntRange(0, 2).Draw(t, "phase") == 0 {
			// active phase: the client sends something within every keep-alive period
			c.Phases = append(c.Phases, "active")
			n := rapid.IntRange(1, 4).Draw(t, "nactive")
			for i := 0; i < n; i++ {
				g := frac("activegap", 10, 100)
				add(gwgen.Adv(g))
				elapsed += g
				switch rapid.IntRange(0, 3).Draw(t, "what") {
				case 3:
					// a packet which the gateway answers itself (nothing is forwarded for it)
					add(gwgen.SN(gwgen.Register(fmt.Sprintf("t/r%d", i), uint16(50+i))))
				case 0:
					add(gwgen.SN(gwgen.Pingreq("")))
				case 1:
					add(gwgen.SN(gwgen.Publish(snref.TITShort, snref.ShortID("ab"), 0, 0, []byte("x"))))
				default:
					add(gwgen.SN(gwgen.SubscribeName("t/a", 0, uint16(1+i))))
				}
			}
			continue
		}
		// sleep phase: DISCONNECT(D), wake-ups within every D, back to active by CONNECT
		g := frac("presleepgap", 10, 90)
		add(gwgen.Adv(g))
		elapsed += g
		var D int64 // seconds
		class := rapid.SampledFrom([]string{"D<K", "D=K", "D>K", "D>>K"}).Draw(t, "class")
		switch class {
		case "D<K":
			if c.K == 1 {
				class = "D=K"
				D = 1
			} else {
				D = int64(rapid.IntRange(1, c.K-1).Draw(t, "D"))
			}
		case "D=K":
			D = int64(c.K)
		case "D>K":
			D = int64(c.K) + int64(rapid.IntRange(1, c.K).Draw(t, "D"))
		default:
			D = int64(c.K) * int64(rapid.IntRange(3, 10).Draw(t, "D"))
		}
		c.Phases = append(c.Phases, "sleep:"+class)
		add(gwgen.SN(gwgen.Disconnect(uint16(D))))
		wakes := rapid.IntRange(0, 4).Draw(t, "wakes")
		for w := 0; w < wakes; w++ {
			// wake within the announced duration: early, or exactly at D
			var off int64
			if rapid.IntRange(0, 2).Draw(t, "exact") == 0 {
				off = D * 1000
			} else {
				off = D * 1000 * int64(rapid.IntRange(10, 100).Draw(t, "wakefrac")) / 100
			}
			add(gwgen.Adv(off))
			elapsed += off
			add(gwgen.SN(gwgen.Pingreq("cl")))
			if rapid.IntRange(0, 3).Draw(t, "reannounce") == 0 {
				// a new sleep announcement while asleep, with the same or another duration
				switch rapid.IntRange(0, 3).Draw(t, "newD") {
				case 1:
					D = int64(c.K)
				case 2:
					D = 2 * int64(c.K)
				case 3:
					D = int64(c.K+1) / 2
				}
				add(gwgen.SN(gwgen.Disconnect(uint16(D))))
			}
		}
		off := D * 1000 * int64(rapid.IntRange(10, 100).Draw(t, "lastfrac")) / 100
		add(gwgen.Adv(off))
		elapsed += off
		// the CONNECT which ends a sleep only signals "active again": its fields are ignored
		// (doc/specification-interpretation.md), the keep-alive agreed with the broker stays K
		sig := uint16(c.K)
		switch rapid.IntRange(0, 5).Draw(t, "signal_duration") {
		case 0:
			sig = 0
		case 1:
			sig = uint16(min(10*c.K, 0xffff))
		case 2:
			sig = uint16((c.K + 1) / 2)
		}
		add(gwgen.SN(gwgen.Connect("cl", sig, false, rapid.Bool().Draw(t, "signal_clean"))))
	}
	// finish within the current obligations
	add(gwgen.Adv(K / 2))
	sc.TailMs = 0
	return c
}

func TestC12(t *testing.T) {
	vf.Check(t, vf.Prop[kaCase]{
		ID: "C12", Name: "broker-keepalive-kept", Bubble: true,
		Rule: "timed histories over 6-20 keep-alive periods (K in {1,2,5,10,30,256} s) in which the client meets its obligations: active phases in which it sends PINGREQ / PUBLISH / SUBSCRIBE / REGISTER (which the gateway answers itself) at gaps of 10-100% of K; sleeps with D<K, D=K, D>K, D>>K; 0-4 wake-ups per sleep at 10-100% of D (a third exactly at D), sometimes re-announcing the sleep with the same or another duration (K, 2K, K/2); return to active by CONNECT within D (half of these CONNECTs repeat K in their Duration field, the others carry 0, 10K or K/2: the field is ignored for a sleeping client). Non-trivial = a history containing a sleep; the D classes are reported as labels; distinct by script.",
		Assumptions: []string{"the oracle reads the virtual timestamps of everything written to the broker connection: from the MQTT CONNECT to the end of the history no gap may exceed 1.5 x K",
			"after a wake-up's PINGRESP the client is asleep again and owes its next PINGREQ within the announced duration (doc/specification-interpretation.md)"},
		Gen: genKeepAlive,
		Run: func(c kaCase) (r vf.Result) {
			tr := gwsim.Run(c.Script)
			for _, p := range c.Phases {
				r.Label(p)
				if p != "active" {
					r.NonTrivial = true
				}
			}
			limit := int64(c.K) * 1500 * 1e6
			last := int64(-1)
			lastWhat := ""
			endNs := int64(0)
			if n := len(tr.Events); n > 0 {
				endNs = tr.Events[n-1].Ns
			}
			// the observation ends with the script (before the harness tears the session down)
			for _, e := range tr.Events {
				if e.Dir == gwsim.EV && e.What == "TEARDOWN" {
					endNs = e.Ns
					break
				}
			}
			check := func(now int64, what string) bool {
				if last >= 0 && now-last > limit {
					phase := phaseAt(tr, last)
					// what did the client send in the gap? If all of it were packets the gateway answers
					// itself (REGISTER), the gap has a cause of its own
					own, other := 0, 0
					for _, e := range tr.Events {
						if e.Dir == gwsim.CG && e.SN != nil && e.Ns > last && e.Ns <= now {
							if e.SN.Type == snref.REGISTER {
								own++
							} else {
								other++
							}
						}
					}
					if phase == "active" && own > 0 && other <= 1 {
						phase += "/client-sent-only-packets-the-gateway-answers-itself"
					}
					r.Fail("broker-starved/"+phase, "the gateway wrote nothing to the broker for %.1f s (keep-alive %d s, limit %.1f s): after %s at %.1f s until %s at %.1f s; the client state then: %s\n%s",
						float64(now-last)/1e9, c.K, float64(limit)/1e9, lastWhat, float64(last)/1e9, what, float64(now)/1e9, phase, traceWindow(tr, last, now))
					return false
				}
				return true
			}
			for _, e := range tr.Events {
				if e.Ns > endNs {
					break
				}
				if e.Dir == gwsim.EV && e.What == "END" {
					// the session ended by itself: the obligation ends (C13/C34 judge endings)
					return
				}
				if e.Dir == gwsim.GB {
					if last < 0 {
						if e.MQ != nil && e.MQ.Type == mqttref.CONNECT {
							last, lastWhat = e.Ns, "CONNECT"
						}
						continue
					}
					if !check(e.Ns, e.String()) {
						return
					}
					last, lastWhat = e.Ns, fmt.Sprint(e.MQ)
				}
			}
			check(endNs, "end of history")
			return
		},
	})
}

// phaseAt names the client state (per the specification) at virtual time ns.
func phaseAt(tr *gwsim.Trace, ns int64) string {
	st := "active"
	var d uint16
	woke := false
	for _, e := range tr.Events {
		if e.Ns > ns {
			break
		}
		if e.Dir != gwsim.CG || e.SN == nil {
			continue
		}
		switch e.SN.Type {
		case snref.DISCONNECT:
			if e.SN.Duration > 0 {
				st, d, woke = "asleep", e.SN.Duration, false
			}
		case snref.PINGREQ:
			if st == "asleep" {
				woke = true
			}
		case snref.CONNECT:
			st = "active"
		}
	}
	if st == "asleep" {
		ka := keepAliveOf(tr)
		cls := "D<=K"
		if d > ka {
			cls = "D>K"
		}
		if woke {
			return "asleep-after-wake/" + cls
		}
		return "asleep-before-first-wake/" + cls
	}
	return st
}

func keepAliveOf(tr *gwsim.Trace) uint16 {
	for _, e := range tr.Events {
		if e.Dir == gwsim.GB && e.MQ != nil && e.MQ.Type == mqttref.CONNECT {
			return e.MQ.KeepAlive
		}
	}
	return 0
}

func traceWindow(tr *gwsim.Trace, from, to int64) string {
	s := ""
	n := 0
	for _, e := range tr.Events {
		if e.Ns >= from-1e9 && e.Ns <= to+1e9 {
			s += "   " + e.String() + "\n"
			n++
			if n > 40 {
				s += "   ...\n"
				break
			}
		}
	}
	return s
}

// ---- C34: sessions of vanished clients are reaped ----------------------------------------------

type vanishCase struct {
	K      int          `json:"keepalive_s"`
	State  string       `json:"state"` // model state when the client falls silent
	D      int          `json:"sleep_s"`
	// Unreachable: after its last packet the client's address is unreachable (the gateway's writes to it fail).
	Unreachable bool         `json:"unreachable,omitempty"`
	Script      gwsim.Script `json:"script"`
}

func genVanish(t *rapid.T) vanishCase {
	c := vanishCase{K: rapid.SampledFrom([]int{1, 3, 10, 60}).Draw(t, "K")}
	sc := &c.Script
	sc.Cfg = gwgen.Cfg(t)
	sc.Cfg.RetryDelayMs = rapid.SampledFrom([]int{1000, 10000}).Draw(t, "retry")
	sc.Auto = gwsim.Auto{Connack: gwgen.U8(0), BrokerAcks: true, ClientRegack: true, ClientAcks: true, BrokerPubrel: true, Suback: "grant"}
	maybeEager(t, sc)
	sc.EnforceKeepAlive = true
	sc.ConnectWaitMs = 5000
	K := int64(c.K) * 1000
	add := func(s ...gwsim.Step) { sc.Steps = append(sc.Steps, s...) }
	c.State = rapid.SampledFrom([]string{"nothing", "refused", "midconnect", "active", "active", "asleep", "asleep", "asleep", "woken-asleep", "woken-reconnected"}).Draw(t, "state")
	switch c.State {
	case "nothing":
	case "refused":
		// the only thing the client ever sent is a CONNECT which the gateway refuses itself (zero
		// keep-alive, a client ID which is not an MQTT string, another protocol ID); having read the
		// refusal it goes away
		p := gwgen.Connect("cl", 0, rapid.Bool().Draw(t, "will"), true)
		switch rapid.IntRange(0, 3).Draw(t, "refusal") {
		case 0:
			p = gwgen.Connect("c\xff", uint16(c.K), false, true)
		case 1:
			p = gwgen.Connect("cl", uint16(c.K), false, true)
			p.ProtocolID = 2
		}
		add(gwgen.SN(p))
	case "midconnect":
		if rapid.Bool().Draw(t, "brokersilent") {
			sc.Auto.Connack = nil
			add(connectSteps(sc.Cfg, "cl", uint16(c.K))...)
		} else {
			add(gwgen.SN(gwgen.Connect("cl", uint16(c.K), true, true)))
		}
	default:
		add(connectSteps(sc.Cfg, "cl", uint16(c.K))...)
		n := rapid.IntRange(0, 3).Draw(t, "nact")
		for i := 0; i < n; i++ {
			add(gwgen.Adv(K*int64(rapid.IntRange(10, 90).Draw(t, "gap"))/100), gwgen.SN(gwgen.Pingreq("")))
		}
		if c.State != "active" {
			switch rapid.SampledFrom([]string{"D<=K", "D>K", "D>>K"}).Draw(t, "class") {
			case "D<=K":
				c.D = rapid.IntRange(1, c.K).Draw(t, "D")
			case "D>K":
				c.D = c.K + rapid.IntRange(1, c.K).Draw(t, "D")
			default:
				c.D = c.K * rapid.IntRange(3, 50).Draw(t, "D")
			}
			if c.D > 65535 {
				c.D = 65535
			}
			add(gwgen.SN(gwgen.Disconnect(uint16(c.D))))
			if c.State == "woken-asleep" || c.State == "woken-reconnected" {
				// an early wake-up
				add(gwgen.Adv(int64(c.D)*1000*int64(rapid.IntRange(5, 60).Draw(t, "wakefrac"))/100), gwgen.SN(gwgen.Pingreq("cl")))
				if c.State == "woken-reconnected" {
					add(gwgen.Adv(int64(rapid.SampledFrom([]int{10, 500}).Draw(t, "recgap"))), gwgen.SN(gwgen.Connect("cl", uint16(c.K), false, false)))
					// a little activity, then silence
					if rapid.Bool().Draw(t, "act") {
						add(gwgen.Adv(K/2), gwgen.SN(gwgen.Pingreq("")))
					}
				}
			}
		}
	}
	// the client is silent from here on; in a third of the cases its address is also unreachable
	// from now on (writes to it fail). Observe for longer than any bound.
	if len(sc.Steps) > 0 && rapid.IntRange(0, 2).Draw(t, "unreachable") == 0 {
		c.Unreachable = true
		add(gwsim.Step{K: "snfail"})
	}
	bound := vanishBound(c)
	sc.TailMs = bound/1e6 + K*3 + 2000
	return c
}

// vanishBound gives the allowed time (ns) between the client's last packet and the end of the session.
func vanishBound(c vanishCase) int64 {
	K := int64(c.K) * 1e9
	poll := int64(101e6)
	switch c.State {
	case "nothing", "midconnect", "refused":
		return 5e9 + poll
	case "active", "woken-reconnected":
		return K*3/2 + K + poll // "about 1.5 x keep-alive" read generously as <= 2.5 K
	default: // asleep
		return int64(c.D)*1e9 + K*3/2 + K + poll
	}
}

func TestC34(t *testing.T) {
	vf.Check(t, vf.Prop[vanishCase]{
		ID: "C34", Name: "vanished-clients-reaped", Bubble: true,
		Rule: "a session against a broker that enforces time (closes a connection without CONNECT after 5 s and one silent for 1.5 x keep-alive); session prefix ending in: nothing sent at all / one CONNECT which the gateway refuses itself (zero keep-alive, invalid client ID, other protocol ID) / mid connect exchange (broker silent, or WILLTOPIC outstanding) / active after 0-3 pings / asleep with D<=K, D>K, D>>K (up to 50 K) / woken early and asleep again / woken early and reconnected (with or without further activity); then the client is silent forever and, in a third of the cases, unreachable as well (every write to it fails). K in {1,3,10,60} s. Non-trivial = the silence point lies after a sleep; distinct by script.",
		Assumptions: []string{"bounds measured from the client's last packet: 5 s + poll before a CONNECT was accepted; 1.5 K + K slack + poll when active ('about 1.5x' read as <= 2.5 K); announced duration + 1.5 K + K slack + poll when asleep (from the last DISCONNECT(duration) or wake-up)",
			"the observation window is the bound plus 3 K + 2 s of virtual time; 'never ends' is observed as 'not ended by then'"},
		Gen: genVanish,
		Run: func(c vanishCase) (r vf.Result) {
			tr := gwsim.Run(c.Script)
			r.Label("state=" + c.State)
			if c.Unreachable {
				r.Label("client-unreachable")
			}
			r.NonTrivial = c.D > 0
			if c.D > c.K {
				r.Label("D>K")
			}
			lastClient := int64(0)
			for _, e := range tr.Events {
				if e.Dir == gwsim.CG {
					lastClient = e.Ns
				}
			}
			bound := vanishBound(c)
			if !tr.Ended {
				r.Fail("half-open-session-survives/"+c.State, "client silent since %.1f s; session still alive %.1f s later (bound %.1f s, keep-alive %d s, sleep %d s)\n%s",
					float64(lastClient)/1e9, float64(c.Script.TailMs)/1e3, float64(bound)/1e9, c.K, c.D, tr.Dump(30))
				return
			}
			if tr.EndNs > lastClient+bound {
				r.Fail("reaped-late/"+c.State, "client silent since %.1f s; session ended at %.1f s, %.1f s later (bound %.1f s, keep-alive %d s, sleep %d s)\n%s",
					float64(lastClient)/1e9, float64(tr.EndNs)/1e9, float64(tr.EndNs-lastClient)/1e9, float64(bound)/1e9, c.K, c.D, tr.Dump(30))
			}
			return
		},
	})
}
