package gw

import (
	"bytes"
	"fmt"
	"sort"
	"strings"
	"testing"

	"pgregory.net/rapid"

	"verif/harness/gwgen"
	"verif/harness/gwsim"
	"verif/harness/mqttref"
	"verif/harness/snref"
	"verif/harness/vf"
)

// ---- shared: an active session with a registration/subscription history --------------

type sessCase struct {
	ClientID string       `json:"client_id"`
	Script   gwsim.Script `json:"script"`
	// PreConnect: that many steps come before the CONNECT (QoS -1 publishes of a not yet connected
	// client, authentication off); they are history, not judged by these checks (C07 judges them).
	PreConnect int `json:"pre_connect,omitempty"`
}

var (
	plainNames   = []string{"t/a", "t/b", "t/c", "x/y/z", "q", "t/a/deep"}
	wildFilters  = []string{"t/+", "t/#", "#", "+/y/+"}
	shortNames   = []string{"ab", "t/", "zz", "\u00e9"} // (the last one: one character, two octets)
	// names whose length in characters and in octets differ around the short-topic limit of two octets
	oddNames = []string{"\u00b0C", "\u00b5s", "a\u00e9", "\u00e9\u00e9"}
	predefNames  = []string{"p/one", "p/two", "p/three", "t/a", "ab"}
	msgIDPool    = []uint16{1, 2, 3, 0xffff, 0xfffe}
	advPoolMs    = []int64{1, 1000, 4000, 6000, 9999}
	clientIDPool = []string{"cl", "c2", "nobody"}
)

func genPayload(t *rapid.T) []byte {
	n := rapid.OneOf(rapid.SampledFrom([]int{0, 1, 2, 10, 246, 247, 248, 249, 250, 251, 4095, 7167, 7168, 8182, 8183}), rapid.IntRange(0, 300)).Draw(t, "plen")
	return vf.Payload{N: n, Fill: rapid.Byte().Draw(t, "pfill")}.Bytes()
}

// maybeEager makes, in a quarter of the cases, both scripted peers answer the moment the gateway
// writes (from the links' write hooks, while the writer is still inside the write) instead of when
// it has come to rest: a broker on the same host, a client on a fast link.
func maybeEager(t *rapid.T, sc *gwsim.Script) {
	if rapid.IntRange(0, 3).Draw(t, "eager_peers") == 0 {
		sc.Steps = append(sc.Steps, gwsim.Step{K: "eager", D: int64(rapid.SampledFrom([]int{0, 1, 3, 10}).Draw(t, "yield"))})
	}
}

// connectSteps returns the steps of a well-formed connect exchange for cfg.
func connectSteps(cfg gwsim.Config, cid string, keepalive uint16) []gwsim.Step {
	st := []gwsim.Step{gwgen.SN(gwgen.Connect(cid, keepalive, false, true))}
	if cfg.Auth {
		st = append(st, gwgen.SN(gwgen.AuthPlain("alice", []byte("secret"))))
	}
	return st
}

type sessOpts struct {
	clientPublishes bool // include client PUBLISH steps (C01)
	brokerPublishes bool // include broker PUBLISH steps (C02)
	badPublishes    bool // include publishes on IDs that denote nothing
	scriptedSuback  bool // the broker's SUBACKs are script steps with arbitrary codes (C03)
	control         bool // include UNSUBSCRIBE / PUBREL / PINGREQ / broker acks (C03)
	refusedRegisters bool // broker publishes on names without an ID whose REGISTER the client accepts, refuses or ignores (C01)
	smallIDSpace    bool // scale the topic-ID space down so that exhaustion is reachable (C04)
	staleRegack     bool // gateway REGISTERs answered by a stale duplicate REGACK, then a client PUBLISH on a known ID (C04)
	maxSteps        int
}

func genSession(t *rapid.T, o sessOpts) sessCase {
	c := sessCase{ClientID: rapid.SampledFrom(clientIDPool).Draw(t, "cid")}
	sc := &c.Script
	sc.Cfg = gwgen.Cfg(t)
	sc.Cfg.RetryDelayMs = 10000
	sc.Cfg.Predef = gwgen.Predef(t, []string{"cl", "c2"}, predefNames)
	sc.Auto = gwsim.Auto{Connack: gwgen.U8(0), BrokerAcks: true, ClientRegack: true, ClientAcks: true, BrokerPubrel: true}
	if o.brokerPublishes {
		// half of the clients keep their name -> ID table a function, as bisquitt's own client does
		sc.Auto.StrictRegister = rapid.Bool().Draw(t, "strict_register")
	}
	if !o.scriptedSuback {
		sc.Auto.Suback = rapid.SampledFrom([]string{"grant", "grant", "grant", "0", "fail"}).Draw(t, "suback")
	}
	if o.smallIDSpace {
		n := rapid.IntRange(2, 12).Draw(t, "max_topic_id")
		lo := 1
		if rapid.IntRange(0, 2).Draw(t, "top_of_real_range") == 0 {
			// the real range 1..0xFFFE with all but the top n IDs skipped (never handed out): the
			// session's own upper bound and wrap-around are exercised, not a scaled one
			sc.Cfg.SkipIDs = 0xfffe - n
			lo = 0xfffe - n + 1
		} else {
			sc.Cfg.MaxTopicID = uint16(n)
		}
		// predefined IDs inside the small range, for this client and for others
		if rapid.Bool().Draw(t, "predef_in_range") {
			for _, cl := range []string{"*", "cl", "c2"} {
				if rapid.IntRange(0, 2).Draw(t, "pin") == 0 {
					if sc.Cfg.Predef[cl] == nil {
						sc.Cfg.Predef[cl] = map[uint16]string{}
					}
					sc.Cfg.Predef[cl][uint16(rapid.IntRange(lo, lo+n-1).Draw(t, "pinid"))] = "p/in-range"
				}
			}
		}
	}
	if !sc.Cfg.Auth && rapid.IntRange(0, 2).Draw(t, "preconnect") == 0 {
		// a QoS -1 PUBLISH on a predefined or short topic before the CONNECT: the gateway does not know
		// the client ID yet when it resolves the predefined ID
		for j := rapid.IntRange(1, 2).Draw(t, "npre"); j > 0; j-- {
			p := snref.Pkt{Type: snref.PUBLISH, QoS: 3, Data: []byte("pre")}
			if rapid.Bool().Draw(t, "pre_short") {
				p.TIT, p.TopicID = snref.TITShort, snref.ShortID("ab")
			} else {
				p.TIT, p.TopicID = snref.TITPredefined, rapid.SampledFrom([]uint16{1, 2, 3, 4, 5, 0xfffe}).Draw(t, "prepid")
			}
			sc.Steps = append(sc.Steps, gwgen.SN(p))
			c.PreConnect++
		}
	}
	keepalive := uint16(60)
	if o.control {
		keepalive = 600 // time passes in these sessions
	}
	if rapid.IntRange(0, 3).Draw(t, "eager_peers") == 0 {
		// both scripted peers answer the moment the gateway writes (from the links' write hooks), not
		// when it has come to rest: a broker on the same host, a client on a fast link
		sc.Steps = append(sc.Steps, gwsim.Step{K: "eager", D: int64(rapid.SampledFrom([]int{0, 1, 3, 10}).Draw(t, "yield"))})
		c.PreConnect++ // (steps before the CONNECT are not judged as session traffic)
	}
	sc.Steps = append(sc.Steps, connectSteps(sc.Cfg, c.ClientID, keepalive)...)
	n := rapid.IntRange(1, o.maxSteps).Draw(t, "nsteps")
	var subMids []uint16
	nextName := 0
	inflight := map[uint16]bool{} // message IDs of broker publishes not yet settled (a broker never reuses those)
	for i := 0; i < n; i++ {
		mid := rapid.SampledFrom(msgIDPool).Draw(t, "mid")
		if o.brokerPublishes && mid >= 0xfff0 {
			// the gateway takes 0xFFFF downwards for the REGISTERs of QoS 0 publishes:
			// collisions with those are C06's subject, not this check's
			mid -= 0xff00
		}
		for inflight[mid] {
			mid++
		}
		kinds := []string{"register", "subscribe", "subscribe"}
		if o.clientPublishes {
			kinds = append(kinds, "cpub", "cpub", "cpub")
		}
		if o.brokerPublishes {
			kinds = append(kinds, "bpub", "bpub", "bpub", "bpub-races-register")
		}
		if o.scriptedSuback && len(subMids) > 0 {
			kinds = append(kinds, "suback", "suback")
		}
		if o.control {
			kinds = append(kinds, "unsubscribe", "pubrel", "pingreq", "backs", "adv", "sleep-reconnect", "sub-reuse")
		}
		if o.smallIDSpace {
			kinds = append(kinds, "register", "register-new", "register-new", "bpub-new")
		}
		if o.refusedRegisters {
			kinds = append(kinds, "bpub-register", "bpub-register", "snrepeat", "bpub-stale-regack")
		}
		if o.clientPublishes || o.brokerPublishes {
			kinds = append(kinds, "refused-connect")
		}
		if o.staleRegack {
			kinds = append(kinds, "bpub-stale-regack", "bpub-stale-regack")
		}
		kind := rapid.SampledFrom(kinds).Draw(t, "kind")
		if len(inflight) > 0 && kind != "bpub" {
			inflight = map[uint16]bool{} // the next settling step completes them
		}
		switch kind {
		case "register":
			sc.Steps = append(sc.Steps, gwgen.SN(gwgen.Register(rapid.SampledFrom(plainNames).Draw(t, "name"), mid)))
		case "bpub-races-register":
			// a broker PUBLISH and the client's own REGISTER of the same name hit the
			// gateway at the same instant (its two receive loops handle them concurrently)
			name := rapid.SampledFrom(plainNames).Draw(t, "name")
			bp := gwgen.MQ(gwgen.BPublish(name, byte(rapid.IntRange(0, 2).Draw(t, "qos")), mid, genPayload(t), rapid.Bool().Draw(t, "retain"), false))
			rg := gwgen.SN(gwgen.Register(name, rapid.SampledFrom(msgIDPool).Draw(t, "regmid")))
			if rapid.Bool().Draw(t, "race_by_subscribe") {
				// ... or its SUBSCRIBE by name, which hands out a topic ID as well
				rg = gwgen.SN(gwgen.SubscribeName(name, byte(rapid.IntRange(0, 2).Draw(t, "qos")), rapid.SampledFrom(msgIDPool).Draw(t, "submid")))
			}
			if rapid.Bool().Draw(t, "register_first") {
				rg.NoWait = true
				sc.Steps = append(sc.Steps, rg, bp)
			} else {
				bp.NoWait = true
				sc.Steps = append(sc.Steps, bp, rg)
			}
		case "bpub-register":
			// a broker PUBLISH on a plain name (which has an ID already, or makes the gateway send a
			// REGISTER); the client accepts that REGISTER, refuses it, or never answers
			auto := sc.Auto
			switch rapid.IntRange(0, 3).Draw(t, "regack") {
			case 0:
				auto.ClientRegack = false
			case 1, 2:
				auto.RegackRC = byte(rapid.IntRange(1, 3).Draw(t, "regack_rc"))
			}
			sc.Steps = append(sc.Steps, gwgen.SetAuto(auto),
				gwgen.MQ(gwgen.BPublish(rapid.SampledFrom(plainNames).Draw(t, "name"), byte(rapid.IntRange(0, 2).Draw(t, "qos")), 0x100+mid%0x100, []byte(fmt.Sprintf("b-%d", i)), false, false)),
				gwgen.SetAuto(sc.Auto))
			if !auto.ClientRegack && rapid.Bool().Draw(t, "stale_regack") {
				// ... and while that REGISTER is unanswered a duplicate of something the client sent
				// earlier arrives (UDP may duplicate and delay): an old REGACK, say, whose message ID
				// the gateway has used again
				sc.Steps = append(sc.Steps, gwsim.Step{K: "snrepeat", D: int64(rapid.IntRange(1, 2).Draw(t, "repeat"))})
			}
		case "snrepeat":
			sc.Steps = append(sc.Steps, gwsim.Step{K: "snrepeat", D: int64(rapid.IntRange(1, 3).Draw(t, "repeat"))})
		case "bpub-stale-regack":
			// two broker publishes on new names one after the other; the client acknowledges the first
			// REGISTER, leaves the second unanswered, and the network delivers its first REGACK once
			// more (the gateway uses the same message ID for both REGISTERs when the publishes are
			// QoS 0); then the client publishes on one of the IDs it was told
			q := byte(rapid.SampledFrom([]int{0, 0, 1}).Draw(t, "qos"))
			quiet := sc.Auto
			quiet.ClientRegack = false
			nextName += 2
			sc.Steps = append(sc.Steps,
				gwgen.MQ(gwgen.BPublish(fmt.Sprintf("n/%d", nextName-1), q, 0x100+mid%0x100, []byte(fmt.Sprintf("b-%d", i)), false, false)),
				gwgen.SetAuto(quiet),
				gwgen.MQ(gwgen.BPublish(fmt.Sprintf("n/%d", nextName), q, 0x101+mid%0x100, []byte(fmt.Sprintf("c-%d", i)), false, false)),
				gwsim.Step{K: "snrepeat", D: int64(rapid.IntRange(1, 2).Draw(t, "repeat"))},
				gwgen.SetAuto(sc.Auto))
			if o.clientPublishes || o.staleRegack {
				p := snref.Pkt{Type: snref.PUBLISH, TIT: snref.TITNormal, TopicID: rapid.SampledFrom([]uint16{1, 2, 3, 4, 5, 6, 7, 8}).Draw(t, "tid"), MsgID: mid, QoS: byte(rapid.IntRange(0, 1).Draw(t, "pqos")), Data: []byte("after")}
				sc.Steps = append(sc.Steps, gwgen.SN(p))
			}
		case "refused-connect":
			// a CONNECT which the gateway refuses itself (zero keep-alive, a client ID which is not
			// an MQTT string), naming another client: the session goes on as the client it was
			other := rapid.SampledFrom(clientIDPool).Draw(t, "other_cid")
			cp := gwgen.Connect(other, 0, false, rapid.Bool().Draw(t, "clean"))
			if rapid.Bool().Draw(t, "bad_cid") {
				cp = gwgen.Connect(rapid.SampledFrom([]string{"c2\xff", "nul\x00", "\xed\xa0\x80"}).Draw(t, "badcid"), 60, false, true)
			}
			sc.Steps = append(sc.Steps, gwgen.SN(cp))
		case "register-new":
			nextName++
			sc.Steps = append(sc.Steps, gwgen.SN(gwgen.Register(fmt.Sprintf("n/%d", nextName), mid)))
		case "bpub-new":
			nextName++
			sc.Steps = append(sc.Steps, gwgen.MQ(gwgen.BPublish(fmt.Sprintf("n/%d", nextName), byte(rapid.IntRange(0, 2).Draw(t, "qos")), mid, []byte("x"), false, false)))
		case "subscribe":
			qos := byte(rapid.IntRange(0, 2).Draw(t, "qos"))
			var p snref.Pkt
			switch rapid.IntRange(0, 5).Draw(t, "subform") {
			case 0, 1:
				p = gwgen.SubscribeName(rapid.SampledFrom(plainNames).Draw(t, "name"), qos, mid)
			case 2:
				p = gwgen.SubscribeName(rapid.SampledFrom(wildFilters).Draw(t, "filter"), qos, mid)
			case 3:
				p = gwgen.SubscribeID(snref.TITShort, snref.ShortID(rapid.SampledFrom(shortNames).Draw(t, "short")), qos, mid)
			default:
				p = gwgen.SubscribeID(snref.TITPredefined, rapid.SampledFrom([]uint16{1, 2, 3, 4, 5, 0xfffe}).Draw(t, "pid"), qos, mid)
			}
			p.DUP = rapid.IntRange(0, 5).Draw(t, "subdup") == 0
			sc.Steps = append(sc.Steps, gwgen.SN(p))
			subMids = append(subMids, mid)
		case "suback":
			m := rapid.SampledFrom(subMids).Draw(t, "submid")
			code := rapid.SampledFrom([]byte{0, 1, 2, 0x80, 0x80, 3, 0x7f, 0xff}).Draw(t, "code")
			sc.Steps = append(sc.Steps, gwgen.MQ(mqttref.Pkt{Type: mqttref.SUBACK, MsgID: m, Codes: []byte{code}}))
		case "unsubscribe":
			var p snref.Pkt
			switch rapid.IntRange(0, 3).Draw(t, "unsubform") {
			case 0:
				p = snref.Pkt{Type: snref.UNSUBSCRIBE, TIT: snref.TITNormal, TopicName: rapid.SampledFrom(append(plainNames, wildFilters...)).Draw(t, "name")}
			case 1:
				p = snref.Pkt{Type: snref.UNSUBSCRIBE, TIT: snref.TITShort, TopicID: snref.ShortID(rapid.SampledFrom(shortNames).Draw(t, "short"))}
			default:
				p = snref.Pkt{Type: snref.UNSUBSCRIBE, TIT: snref.TITPredefined, TopicID: rapid.SampledFrom([]uint16{1, 2, 3, 4, 5, 0xfffe}).Draw(t, "pid")}
			}
			p.MsgID = mid
			sc.Steps = append(sc.Steps, gwgen.SN(p))
		case "adv":
			sc.Steps = append(sc.Steps, gwgen.Adv(rapid.SampledFrom(advPoolMs).Draw(t, "adv_ms")))
		case "sleep-reconnect":
			// the client sleeps and comes back with a CONNECT (not a PINGREQ): the gateway answers the
			// CONNACK itself and pings the broker on its own account
			// (in half of the cases the broker answers the gateway's own PINGREQs the moment they are
			// written, not when the gateway has come to rest)
			eager := rapid.Bool().Draw(t, "eager_broker")
			if eager {
				sc.Steps = append(sc.Steps, gwsim.Step{K: "eagerping", D: int64(rapid.SampledFrom([]int{0, 1, 3, 10}).Draw(t, "yield"))})
			}
			sc.Steps = append(sc.Steps, gwgen.SN(gwgen.Disconnect(uint16(rapid.SampledFrom([]int{5, 60, 600}).Draw(t, "sleep_s")))))
			if d := rapid.SampledFrom([]int64{0, 0, 1000, 4000}).Draw(t, "asleep_ms"); d > 0 {
				sc.Steps = append(sc.Steps, gwgen.Adv(d))
			}
			// the broker's answers to what the client asked before it fell asleep arrive meanwhile
			for k := rapid.IntRange(0, 2).Draw(t, "acks_while_asleep"); k > 0; k-- {
				if len(subMids) > 0 && rapid.Bool().Draw(t, "suback_asleep") {
					sc.Steps = append(sc.Steps, gwgen.MQ(mqttref.Pkt{Type: mqttref.SUBACK, MsgID: rapid.SampledFrom(subMids).Draw(t, "submid"), Codes: []byte{rapid.SampledFrom([]byte{0, 1, 2, 0x80}).Draw(t, "code")}}))
				} else {
					typ := rapid.SampledFrom([]byte{mqttref.PUBREC, mqttref.PUBCOMP, mqttref.UNSUBACK}).Draw(t, "btype")
					sc.Steps = append(sc.Steps, gwgen.MQ(mqttref.Pkt{Type: typ, MsgID: rapid.SampledFrom(msgIDPool).Draw(t, "bmid")}))
				}
			}
			sc.Steps = append(sc.Steps, gwgen.SN(gwgen.Connect(c.ClientID, keepalive, false, rapid.Bool().Draw(t, "clean"))))
			if eager {
				sc.Steps = append(sc.Steps, gwsim.Step{K: "eagerping", D: -1})
			}
			if rapid.Bool().Draw(t, "ping_after") {
				sc.Steps = append(sc.Steps, gwgen.SN(gwgen.Pingreq("")))
			}
		case "sub-reuse":
			// a SUBSCRIBE which the broker answers (grants or refuses), then the same message ID again
			// for another SUBSCRIBE (it is free once the SUBACK has arrived), with time in between
			for k := 0; k < 2; k++ {
				sc.Steps = append(sc.Steps, gwgen.SN(gwgen.SubscribeName(rapid.SampledFrom(plainNames).Draw(t, "name"), byte(rapid.IntRange(0, 2).Draw(t, "qos")), mid)))
				if k == 0 || rapid.IntRange(0, 3).Draw(t, "answer_second") > 0 {
					if d := rapid.SampledFrom(advPoolMs).Draw(t, "wait_ms"); k == 1 || rapid.Bool().Draw(t, "slow_first_answer") {
						sc.Steps = append(sc.Steps, gwgen.Adv(d))
					}
					code := rapid.SampledFrom([]byte{0, 1, 2, 0x80, 0x80, 0x80, 0xff}).Draw(t, "code")
					sc.Steps = append(sc.Steps, gwgen.MQ(mqttref.Pkt{Type: mqttref.SUBACK, MsgID: mid, Codes: []byte{code}}))
				}
				if k == 0 {
					sc.Steps = append(sc.Steps, gwgen.Adv(rapid.SampledFrom(advPoolMs).Draw(t, "gap_ms")))
				}
			}
			subMids = append(subMids, mid)
		case "pubrel":
			sc.Steps = append(sc.Steps, gwgen.SN(snref.Pkt{Type: snref.PUBREL, MsgID: mid}))
		case "pingreq":
			sc.Steps = append(sc.Steps, gwgen.SN(gwgen.Pingreq("")))
		case "backs":
			typ := rapid.SampledFrom([]byte{mqttref.PUBREC, mqttref.PUBCOMP, mqttref.UNSUBACK, mqttref.PINGRESP}).Draw(t, "btype")
			sc.Steps = append(sc.Steps, gwgen.MQ(mqttref.Pkt{Type: typ, MsgID: mid}))
		case "cpub":
			p := snref.Pkt{Type: snref.PUBLISH, MsgID: mid, Data: genPayload(t),
				DUP: rapid.Bool().Draw(t, "dup"), Retain: rapid.Bool().Draw(t, "retain"),
				QoS: byte(rapid.IntRange(0, 3).Draw(t, "qos"))}
			switch rapid.IntRange(0, 9).Draw(t, "pubform") {
			case 0, 1, 2, 3:
				p.TIT = snref.TITNormal
				p.TopicID = rapid.SampledFrom([]uint16{1, 2, 3, 4, 5, 6}).Draw(t, "tid")
			case 4, 5, 6:
				p.TIT = snref.TITPredefined
				p.TopicID = rapid.SampledFrom([]uint16{1, 2, 3, 4, 5, 0xfffe}).Draw(t, "pid")
			case 7, 8:
				p.TIT = snref.TITShort
				p.TopicID = snref.ShortID(rapid.SampledFrom(shortNames).Draw(t, "short"))
			default:
				if o.badPublishes {
					p.TIT = byte(rapid.SampledFrom([]int{0, 1, 3}).Draw(t, "badtit"))
					p.TopicID = rapid.SampledFrom([]uint16{0, 7, 300, 0xffff}).Draw(t, "badtid")
				} else {
					p.TIT = snref.TITShort
					p.TopicID = snref.ShortID("ok")
				}
			}
			sc.Steps = append(sc.Steps, gwgen.SN(p))
		case "bpub":
			var topic string
			switch rapid.IntRange(0, 5).Draw(t, "btopic") {
			case 0:
				topic = rapid.SampledFrom(shortNames).Draw(t, "short")
			case 1:
				topic = rapid.SampledFrom(predefNames).Draw(t, "pname")
			case 5:
				topic = rapid.SampledFrom(oddNames).Draw(t, "odd")
			default:
				topic = rapid.SampledFrom(plainNames).Draw(t, "name")
			}
			qos := byte(rapid.IntRange(0, 2).Draw(t, "qos"))
			if mid >= 0xfff0 {
				// the gateway picks 0xFFFF downwards for its own REGISTERs of QoS 0
				// publishes; collisions of those with broker IDs are C06's subject
				mid -= 0xff00
			}
			for inflight[mid] {
				mid++
			}
			st := gwgen.MQ(gwgen.BPublish(topic, qos, mid, genPayload(t), rapid.Bool().Draw(t, "retain"), false))
			// sometimes two publishes hit the gateway at the same instant
			st.NoWait = rapid.IntRange(0, 5).Draw(t, "nowait") == 0
			sc.Steps = append(sc.Steps, st)
			if st.NoWait {
				inflight[mid] = true
				continue
			}
		}
	}
	sc.TailMs = 100
	return c
}

// ---- the client's knowledge of topic IDs, rebuilt from the trace -----------------------

type know struct {
	clientID   string
	predef     map[string]map[uint16]string
	reg        map[uint16]string // IDs the client definitely learnt, and the name
	grey       map[uint16]bool   // IDs that may or may not denote a name
	pendingReg map[uint16]string // client REGISTER msgID -> name
	pendingSub map[uint16]snref.Pkt
	gwReg      map[uint16]snref.Pkt // gateway REGISTER msgID -> packet, awaiting the client's REGACK
	unanswered int                  // plain-name SUBSCRIBEs without SUBACK so far
	handed     []handedID           // every ID the gateway handed out (for C04)
	// strict: the client's name -> ID table is a function (bisquitt's own client): learning a new ID
	// for a name makes it forget the old one
	strict bool
	nameID map[string]uint16
}

// learn records that the client accepted id for name.
func (k *know) learn(id uint16, name string) {
	if k.strict {
		if old, ok := k.nameID[name]; ok && old != id {
			delete(k.reg, old)
		}
		k.nameID[name] = id
	}
	k.reg[id] = name
	delete(k.grey, id)
}

type handedID struct {
	id   uint16
	name string
	how  string
	at   int
}

func newKnow(c sessCase) *know {
	return &know{clientID: c.ClientID, predef: c.Script.Cfg.Predef, reg: map[uint16]string{}, grey: map[uint16]bool{}, strict: c.Script.Auto.StrictRegister, nameID: map[string]uint16{},
		pendingReg: map[uint16]string{}, pendingSub: map[uint16]snref.Pkt{}, gwReg: map[uint16]snref.Pkt{}}
}

func hasWild(s string) bool { return strings.ContainsAny(s, "+#") }

func (k *know) feed(i int, e gwsim.Event) {
	if e.SN == nil {
		return
	}
	p := *e.SN
	switch e.Dir {
	case gwsim.CG:
		switch p.Type {
		case snref.REGISTER:
			k.pendingReg[p.MsgID] = p.TopicName
		case snref.SUBSCRIBE:
			k.pendingSub[p.MsgID] = p
			if p.TIT == snref.TITNormal && !hasWild(p.TopicName) {
				k.unanswered++
			}
		case snref.REGACK:
			if g, ok := k.gwReg[p.MsgID]; ok && p.TopicID == g.TopicID {
				delete(k.gwReg, p.MsgID)
				if p.RC == 0 {
					k.learn(g.TopicID, g.TopicName)
				} else if _, def := k.reg[g.TopicID]; !def {
					// the client refused the registration: the ID is not registered in this session
					// (unless another registration of the same ID is still open)
					open := false
					for _, o := range k.gwReg {
						open = open || o.TopicID == g.TopicID
					}
					if !open {
						delete(k.grey, g.TopicID)
					}
				}
			}
		}
	case gwsim.GC:
		switch p.Type {
		case snref.REGACK:
			if name, ok := k.pendingReg[p.MsgID]; ok {
				delete(k.pendingReg, p.MsgID)
				if p.RC == 0 {
					k.learn(p.TopicID, name)
					k.handed = append(k.handed, handedID{p.TopicID, name, "REGACK", i})
				}
			}
		case snref.SUBACK:
			if s, ok := k.pendingSub[p.MsgID]; ok {
				delete(k.pendingSub, p.MsgID)
				if s.TIT == snref.TITNormal && !hasWild(s.TopicName) {
					k.unanswered--
					if p.RC == 0 && p.TopicID != 0 {
						k.learn(p.TopicID, s.TopicName)
						k.handed = append(k.handed, handedID{p.TopicID, s.TopicName, "SUBACK", i})
					} else if p.TopicID != 0 {
						k.grey[p.TopicID] = true
					}
				}
			}
		case snref.REGISTER:
			k.gwReg[p.MsgID] = p
			if _, def := k.reg[p.TopicID]; !def {
				k.grey[p.TopicID] = true
			}
			k.handed = append(k.handed, handedID{p.TopicID, p.TopicName, "REGISTER", i})
		}
	}
}

// resolve gives the name a (topic-ID type, ID) pair denotes for this client:
// status "yes" (definitely name), "no" (denotes nothing), "maybe".
//
// clientView=false asks what the ID may denote inside the gateway (an ID from a
// refused SUBACK or an unacknowledged gateway REGISTER may or may not be
// registered there); clientView=true asks what the client itself accepted
// (such IDs were not accepted; only an ID the client cannot know yet because a
// SUBSCRIBE is still unanswered is "maybe").
func (k *know) resolve(tit byte, id uint16, clientView bool) (string, string) {
	switch tit {
	case snref.TITNormal:
		if n, ok := k.reg[id]; ok {
			return n, "yes"
		}
		if k.grey[id] && clientView {
			return "", "no"
		}
		if k.grey[id] || k.unanswered > 0 {
			return "", "maybe"
		}
		return "", "no"
	case snref.TITPredefined:
		if n, ok := gwgen.LookupName(k.predef, k.clientID, id); ok {
			return n, "yes"
		}
		return "", "no"
	case snref.TITShort:
		return snref.ShortName(id), "yes"
	}
	return "", "no"
}

func stepEvents(tr *gwsim.Trace, step int) []gwsim.Event {
	var out []gwsim.Event
	for _, e := range tr.Events {
		if e.Step == step {
			out = append(out, e)
		}
	}
	return out
}

func endedBefore(tr *gwsim.Trace, ns int64) bool { return tr.Ended && tr.EndNs <= ns }

// ---- C01 ---------------------------------------------------------------------------------

func TestC01(t *testing.T) {
	vf.Check(t, vf.Prop[sessCase]{
		ID: "C01", Name: "client-publish-forwarded", Bubble: true,
		Rule: "connected session (auth on/off, predefined map with client-specific and '*' entries over overlapping IDs/names, client ID inside/outside the map) with a history of REGISTER, SUBSCRIBE (plain, wildcard, short, predefined; broker grants/refuses) and broker PUBLISHes on plain names whose REGISTER the client accepts, refuses (return codes 1-3) or never answers, duplicates of the client's recent datagrams (its automatic REGACKs included), interleaved with client PUBLISH steps over DUP x QoS{-1,0,1,2} x retain x topic-ID type {0,1,2,3}, IDs registered / never handed out / predefined visible, shadowed or absent / short names, payload 0..8183 (the largest that fits a datagram) boundary-biased, message IDs from a small pool. Non-trivial = a publish whose topic ID was introduced by an earlier step of the script (registered ID), or a predefined ID defined for both the client and '*', or a publish that must be refused; distinct by script.",
		Assumptions: []string{"IDs in a grey zone (handed out in a SUBACK the broker refused, or in a gateway REGISTER not yet acknowledged) may or may not denote: either outcome passes; an ID from a gateway REGISTER which the client refused denotes nothing",
			"DUP=1 with QoS 0/-1 and message ID 0 with QoS 1/2 cannot be valid MQTT (C24): forwarding is optional, but if forwarded it must be unchanged"},
		Gen: func(t *rapid.T) sessCase {
			return genSession(t, sessOpts{clientPublishes: true, badPublishes: true, refusedRegisters: true, maxSteps: 10})
		},
		Run: func(c sessCase) (r vf.Result) {
			tr := gwsim.Run(c.Script)
			checkForwarding(c, tr, &r)
			return
		},
	})
}

// checkForwarding judges every client PUBLISH of the script against the client's own knowledge of
// topic IDs at that moment (C01; C04 uses it for "an ID never later denotes another name").
func checkForwarding(c sessCase, tr *gwsim.Trace, r *vf.Result) {
	k := newKnow(c)
	seen := map[int]bool{}
	for i, e := range tr.Events {
		if e.Dir == gwsim.EV && e.What == "END" {
			break
		}
		if e.Dir == gwsim.CG && e.SN != nil && e.SN.Type == snref.PUBLISH && !e.Auto && !seen[e.Step] && e.Step >= c.PreConnect {
			seen[e.Step] = true
			p := *e.SN
			name, st := k.resolve(p.TIT, p.TopicID, false)
			var pubs []mqttref.Pkt
			for _, x := range stepEvents(tr, e.Step) {
				if x.Dir == gwsim.GB && x.MQ != nil && x.MQ.Type == mqttref.PUBLISH {
					pubs = append(pubs, *x.MQ)
				}
			}
			form := fmt.Sprintf("tit=%d", p.TIT)
			_, own := c.Script.Cfg.Predef[c.ClientID][p.TopicID]
			_, star := c.Script.Cfg.Predef["*"][p.TopicID]
			if (p.TIT == snref.TITNormal && st == "yes") || (p.TIT == snref.TITPredefined && own && star) || st == "no" {
				r.NonTrivial = true
			}
			optional := (p.DUP && (p.QoS == 0 || p.QoS == 3)) || ((p.QoS == 1 || p.QoS == 2) && p.MsgID == 0)
			switch st {
			case "no":
				r.Label("must-refuse:" + form)
				if len(pubs) > 0 {
					r.Fail("forwarded-undenoting-id/"+form, "PUBLISH %v denotes no topic but %v was forwarded\n%s", p, pubs[0], tr.Dump(25))
				}
			case "maybe":
				r.Label("grey:" + form)
			case "yes":
				r.Label("must-forward:" + form)
				if len(pubs) == 0 {
					if optional || endedBefore(tr, e.Ns+101e6) {
						break
					}
					r.Fail("not-forwarded/"+form, "PUBLISH %v (topic %q) was not forwarded\n%s", p, name, tr.Dump(25))
					break
				}
				if len(pubs) > 1 {
					r.Fail("forwarded-more-than-once/"+form, "PUBLISH %v forwarded %d times\n%s", p, len(pubs), tr.Dump(25))
				}
				m := pubs[0]
				wantQ := p.QoS
				if wantQ == 3 {
					wantQ = 0
				}
				switch {
				case m.Topic != name:
					r.Fail("wrong-topic/"+form, "PUBLISH %v forwarded under %q, the ID denotes %q\n%s", p, m.Topic, name, tr.Dump(25))
				case !bytes.Equal(m.Payload, p.Data):
					r.Fail("payload-differs", "payload of %d octets forwarded as %d octets", len(p.Data), len(m.Payload))
				case m.QoS != wantQ:
					r.Fail(fmt.Sprintf("qos-differs/sn=%d,mqtt=%d", p.QoS, m.QoS), "PUBLISH %v forwarded as %v", p, m)
				case m.Retain != p.Retain:
					r.Fail("retain-differs", "PUBLISH %v forwarded as %v", p, m)
				case m.Dup != p.DUP:
					r.Fail("dup-differs", "PUBLISH %v forwarded as %v", p, m)
				case wantQ > 0 && m.MsgID != p.MsgID:
					r.Fail("msgid-differs", "PUBLISH %v forwarded as %v", p, m)
				}
			}
		}
		k.feed(i, e)
	}
}

// ---- C02 ---------------------------------------------------------------------------------

func TestC02(t *testing.T) {
	vf.Check(t, vf.Prop[sessCase]{
		ID: "C02", Name: "broker-publish-resolvable", Bubble: true,
		Rule: "connected session with a cooperative scripted client (accepts REGISTERs, completes QoS 1/2), predefined maps with shadowing between the client's entry and '*', and broker PUBLISH steps on short names, predefined names (own, '*'-only, shadowed), registered names, names introduced by SUBACK and brand-new names, names of two characters but three octets (sometimes while the client refuses or ignores the gateway's REGISTER; sometimes two at the same instant, sometimes at the same instant as the client's own REGISTER or SUBSCRIBE of that name, in either order), QoS 0-2, retain, payload 0..8183 (the largest that fits a datagram). Non-trivial = the topic needed a REGISTER, or is predefined with an ID defined for both the client and '*'; distinct by script.",
		Assumptions: []string{"only deliveries to an active client are judged (sleep is C11)", "deliveries are attributed to broker publishes by payload, QoS, retain flag and - for QoS 1/2 - the broker's packet identifier, which bisquitt, a transparent gateway, keeps (C06 rests on that); look-alikes on different topics by the name the delivery resolves to", "the client resolves IDs only from its own knowledge: short decoding, the shared predefined configuration, REGISTERs it accepted, REGACKs/SUBACKs it received",
			"half of the scripted clients accept every REGISTER; the other half behave like bisquitt's own client (client/net.go): a REGISTER for a name already held under another topic ID is refused with 'invalid topic ID'"},
		Gen: func(t *rapid.T) sessCase {
			return genSession(t, sessOpts{brokerPublishes: true, refusedRegisters: true, maxSteps: 10})
		},
		Run: func(c sessCase) (r vf.Result) {
			tr := gwsim.Run(c.Script)
			k := newKnow(c)
			// broker publishes in order; client publishes received in order
			type want struct {
				m    mqttref.Pkt
				step int
				ns   int64
				at   int // event index
			}
			refusedAt := map[string][]int{} // name -> event indices of REGISTERs which reached a refusing/ignoring client
			var wants []want
			// steps during which the scripted client refuses or ignores the gateway's REGISTERs: a
			// publish which needs a REGISTER then is outside the property (but an ID from such a
			// REGISTER must never be used)
			refusing := map[int]bool{}
			cur := c.Script.Auto
			for i, st := range c.Script.Steps {
				if st.K == "auto" && st.Auto != nil {
					cur = *st.Auto
				}
				if !cur.ClientRegack || cur.RegackRC != 0 {
					refusing[i] = true
				}
			}
			var got []struct {
				p   snref.Pkt
				reg *snref.Pkt // REGISTER for this name seen before it, if any
				res string
				st  string
			}
			regs := map[string]snref.Pkt{}
			for i, e := range tr.Events {
				if e.Dir == gwsim.EV && e.What == "END" {
					break
				}
				k.feed(i, e)
				if e.Dir == gwsim.BG && e.MQ != nil && e.MQ.Type == mqttref.PUBLISH && !e.Auto {
					wants = append(wants, want{*e.MQ, e.Step, e.Ns, i})
				}
				if e.Dir == gwsim.GC && e.SN != nil && e.SN.Type == snref.REGISTER {
					regs[e.SN.TopicName] = *e.SN
					if refusing[e.Step] {
						refusedAt[e.SN.TopicName] = append(refusedAt[e.SN.TopicName], i)
					}
				}
				if e.Dir == gwsim.CG && e.Auto && e.SN != nil && e.SN.Type == snref.REGACK && e.SN.RC == 2 && !refusing[e.Step] {
					// the strict client (name -> ID is a function, like bisquitt's own client) turned a REGISTER down
					r.Fail("register-for-name-the-client-holds", "the gateway sent a REGISTER (topic ID %d) for a name the client already holds another topic ID for; a client whose name table is a function (bisquitt's own) must refuse it, and the PUBLISH cannot resolve\n%s", e.SN.TopicID, tr.Dump(30))
					return
				}
				if e.Dir == gwsim.GC && e.SN != nil && e.SN.Type == snref.PUBLISH && !e.SN.DUP {
					name, st := k.resolve(e.SN.TIT, e.SN.TopicID, true)
					g := struct {
						p   snref.Pkt
						reg *snref.Pkt
						res string
						st  string
					}{p: *e.SN, res: name, st: st}
					got = append(got, g)
				}
			}
			// every broker PUBLISH must appear (matched by payload, QoS, retain; the
			// order across different topics is not fixed by the property)
			used := make([]bool, len(got))
			// several broker publishes of one script may look alike (same payload, QoS, retain) on
			// different topics: a delivery is then attributed to the one whose topic it resolves to
			sig := func(m mqttref.Pkt) string { return fmt.Sprintf("%x/%d/%v", m.Payload, m.QoS, m.Retain) }
			alike := map[string]map[string]bool{}
			for _, w := range wants {
				if alike[sig(w.m)] == nil {
					alike[sig(w.m)] = map[string]bool{}
				}
				alike[sig(w.m)][w.m.Topic] = true
			}
			for _, w := range wants {
				tn := w.m.Topic
				gi := -1
				for j := range got {
					if !used[j] && bytes.Equal(got[j].p.Data, w.m.Payload) && got[j].p.QoS == w.m.QoS && got[j].p.Retain == w.m.Retain {
						if w.m.QoS > 0 && got[j].p.MsgID != w.m.MsgID {
							continue // a QoS 1/2 message keeps the broker's message ID: this is another one
						}
						if len(alike[sig(w.m)]) > 1 && got[j].res != tn && alike[sig(w.m)][got[j].res] {
							continue // this is the look-alike's delivery
						}
						// prefer the candidate that resolves to the right name
						if gi < 0 || (got[gi].res != tn && got[j].res == tn) {
							gi = j
						}
					}
				}
				if gi < 0 {
					if endedBefore(tr, w.ns+101e6) {
						break
					}
					exempt := refusing[w.step]
					for _, at := range refusedAt[tn] {
						exempt = exempt || at > w.at
					}
					if exempt {
						r.Label("register-refused-by-client")
						continue
					}
					r.Fail("broker-publish-not-delivered", "broker %v never reached the client unchanged (same payload, QoS, retain)\n%s", w.m, tr.Dump(30))
					break
				}
				used[gi] = true
				g := got[gi]
				_, own := c.Script.Cfg.Predef[c.ClientID][g.p.TopicID]
				_, star := c.Script.Cfg.Predef["*"][g.p.TopicID]
				if _, needed := regs[tn]; needed || (g.p.TIT == snref.TITPredefined && own && star) {
					r.NonTrivial = true
				}
				form := fmt.Sprintf("tit=%d", g.p.TIT)
				r.Label("delivered:" + form)
				switch {
				case g.st == "maybe":
					// e.g. a PUBLISH that overtakes the SUBACK carrying its ID: the property does not fix that order
					r.Label("grey:" + form)
				case g.st != "yes":
					r.Fail("unresolvable-topic-id/"+form, "broker topic %q delivered with %s ID %d which the client cannot resolve (%s)\n%s", tn, form, g.p.TopicID, g.st, tr.Dump(30))
				case g.res != tn:
					r.Fail("resolves-to-other-name/"+form, "broker topic %q delivered with %s ID %d which the client resolves to %q\n%s", tn, form, g.p.TopicID, g.res, tr.Dump(30))
				}
			}
			return
		},
	})
}

// ---- C03 ---------------------------------------------------------------------------------

func TestC03(t *testing.T) {
	vf.Check(t, vf.Prop[sessCase]{
		ID: "C03", Name: "control-packets-one-to-one", Bubble: true,
		Rule: "connected session; SUBSCRIBE over all topic forms x requested QoS 0-2 x message IDs from a small pool; broker SUBACKs as script steps with return code drawn from {0,1,2,0x80} and reserved values {3,0x7f,0xff} (anything above 2 is a refusal) independently of the requested QoS; UNSUBSCRIBE (all forms), PUBREL, PINGREQ from the client; PUBREC/PUBCOMP/UNSUBACK/PINGRESP from the broker with arbitrary IDs; time advances of 1 ms - 9.999 s between steps (RetryDelay 10 s), a message ID used again for a SUBSCRIBE after its SUBACK (granted or refused) with such gaps before and after, and sleep - during which 0-2 answers of the broker arrive - followed by a reconnecting CONNECT. Non-trivial = a SUBACK whose granted QoS differs from the requested one, or a refusal, or a non-string topic form; distinct by script.",
		Assumptions: []string{"the topic ID of a refused SUBACK is unconstrained", "a SUBACK is judged only if it answers a SUBSCRIBE of this session that is still pending (the latest SUBSCRIBE with that message ID was sent less than RetryDelay ago and is not yet answered)", "a client which comes back from sleep with CONNECT gets one CONNACK and no PINGRESP (it sent no PINGREQ); an answer of the broker which arrives while the client is asleep is owed at that CONNECT (translated exactly as otherwise) and nothing is sent before"},
		Gen: func(t *rapid.T) sessCase {
			return genSession(t, sessOpts{scriptedSuback: true, control: true, maxSteps: 10})
		},
		Run: runC03,
	})
}

func runC03(c sessCase) (r vf.Result) {
	tr := gwsim.Run(c.Script)
	k := newKnow(c)
	type pend struct {
		p       snref.Pkt
		firstNs int64 // when it was sent
	}
	retry := int64(c.Script.Cfg.RetryDelayMs) * 1e6
	pending := map[uint16]pend{} // SUBSCRIBE forwarded and not yet answered, by message ID
	connects, asleep := 0, false
	wakeGC := map[int]*[]snref.Pkt{} // per waking CONNECT step: what the client got there and is not yet accounted for
	for i, st := range c.Script.Steps {
		ev := stepEvents(tr, i)
		if len(ev) == 0 {
			continue
		}
		first := ev[0]
		if tr.Ended && tr.EndNs <= first.Ns+101e6 {
			break
		}
		var gb []mqttref.Pkt
		var gc []snref.Pkt
		undec := false
		for _, x := range ev[1:] {
			if x.Dir == gwsim.GB && x.MQ != nil {
				gb = append(gb, *x.MQ)
			}
			if x.Dir == gwsim.GC {
				if x.SN != nil {
					gc = append(gc, *x.SN)
				} else {
					undec = true
				}
			}
		}
		if asleep && st.K == "mq" && st.MQ != nil {
			// an answer of the broker for a sleeping client is owed at the wake-up: judged against what
			// the client gets at the CONNECT which ends the sleep
			want, ok := map[byte]byte{mqttref.SUBACK: snref.SUBACK, mqttref.PUBREC: snref.PUBREC, mqttref.PUBCOMP: snref.PUBCOMP, mqttref.UNSUBACK: snref.UNSUBACK}[st.MQ.Type]
			w := -1
			for j := i + 1; j < len(c.Script.Steps); j++ {
				if x := c.Script.Steps[j]; x.K == "sn" && x.SN.Type == snref.CONNECT {
					w = j
					break
				}
			}
			if !ok || w < 0 || len(stepEvents(tr, w)) == 0 {
				continue
			}
			if wakeGC[w] == nil {
				wakeGC[w] = &[]snref.Pkt{}
				for _, x := range stepEvents(tr, w)[1:] {
					if x.Dir == gwsim.GC && x.SN != nil {
						*wakeGC[w] = append(*wakeGC[w], *x.SN)
					}
				}
			}
			if len(gc) > 0 {
				r.Fail("sent-to-sleeping-client", "the gateway sent %v to a client which is asleep\n%s", gc[0], tr.Dump(25))
			}
			gc, undec = nil, false
			for k, p := range *wakeGC[w] {
				if p.Type == want && p.MsgID == st.MQ.MsgID {
					gc = []snref.Pkt{p}
					*wakeGC[w] = append(append([]snref.Pkt(nil), (*wakeGC[w])[:k]...), (*wakeGC[w])[k+1:]...)
					break
				}
			}
			r.Label("broker-ack-while-asleep")
		}
		one := func(kind string, n int, what string) bool {
			if n != 1 {
				r.Fail(fmt.Sprintf("%s/count=%d", kind, n), "%s: expected exactly one translated packet, saw %d\n%s", what, n, tr.Dump(25))
				return false
			}
			return true
		}
		switch {
		case st.K == "sn" && st.SN.Type == snref.SUBSCRIBE:
			p := *st.SN
			var filter string
			ok := true
			switch p.TIT {
			case snref.TITNormal:
				filter = p.TopicName
			case snref.TITShort:
				filter = snref.ShortName(p.TopicID)
			case snref.TITPredefined:
				filter, ok = gwgen.LookupName(k.predef, k.clientID, p.TopicID)
			}
			if p.TIT != snref.TITNormal {
				r.NonTrivial = true
			}
			if !ok {
				r.Label("subscribe-unknown-predefined")
				break // nothing to translate; ending the session is fine
			}
			if one("subscribe-not-one-to-one", len(gb), "SUBSCRIBE") {
				m := gb[0]
				if m.Type != mqttref.SUBSCRIBE || m.MsgID != p.MsgID || len(m.Filters) != 1 || m.Filters[0] != filter || m.QoSs[0] != p.QoS {
					r.Fail("subscribe-translation", "SUBSCRIBE %v translated to %v (want filter %q qos %d mid %d)", p, m, filter, p.QoS, p.MsgID)
				}
				// a SUBSCRIBE may supersede an unanswered one with the same message ID (a retransmission,
				// say): the gateway's patience counts from the latest one
				np := pend{p: p, firstNs: first.Ns}
				if old, ok := pending[p.MsgID]; ok && first.Ns < old.firstNs+retry {
					r.Label("subscribe-supersedes-unanswered")
				}
				pending[p.MsgID] = np
			}
		case st.K == "sn" && st.SN.Type == snref.DISCONNECT && st.SN.Duration > 0:
			asleep = true
			// the answer to a sleep request is a DISCONNECT; the gateway's own ping of the broker is
			// none of the client's business
			for _, p := range gc {
				if p.Type == snref.PINGRESP {
					r.Fail("pingresp-without-pingreq/sleep-request", "the client announced a sleep and got a PINGRESP although it sent no PINGREQ\n%s", tr.Dump(25))
				}
			}
		case st.K == "sn" && st.SN.Type == snref.CONNECT:
			connects++
			if connects == 1 || !asleep {
				break
			}
			asleep = false
			r.Label("reconnect-out-of-sleep")
			r.NonTrivial = true
			// the gateway answers this CONNECT itself; the PINGRESP for its own PINGREQ to the broker is
			// not the client's (PINGREQ/PINGRESP are one-to-one, and the client sent no PINGREQ)
			nack := 0
			for _, p := range gc {
				switch p.Type {
				case snref.CONNACK:
					nack++
				case snref.PINGRESP:
					r.Fail("pingresp-without-pingreq", "the client came back from sleep with CONNECT and got a PINGRESP although it sent no PINGREQ\n%s", tr.Dump(25))
				}
			}
			if !undec {
				one("reconnect-connack", nack, "CONNACK for the CONNECT of a sleeping client")
			}
		case st.K == "mq" && st.MQ.Type == mqttref.SUBACK:
			pe, ok := pending[st.MQ.MsgID]
			if !ok {
				break
			}
			delete(pending, st.MQ.MsgID)
			if first.Ns >= pe.firstNs+retry {
				r.Label("suback-after-retry-delay")
				break // the gateway has given the exchange up
			}
			s := pe.p
			if first.Ns > pe.firstNs {
				r.Label("suback-after-a-while")
			}
			code := st.MQ.Codes[0]
			if code != s.QoS {
				r.NonTrivial = true
			}
			if undec {
				break
			}
			if one("suback-not-one-to-one", len(gc), "SUBACK") {
				a := gc[0]
				switch {
				case a.Type != snref.SUBACK || a.MsgID != st.MQ.MsgID:
					r.Fail("suback-translation", "broker SUBACK(mid=%d) translated to %v", st.MQ.MsgID, a)
				case (a.RC == 0) != (code <= 2):
					r.Fail(fmt.Sprintf("suback-acceptance/code=%#x,rc=%d", code, a.RC), "broker return code %#x translated to MQTT-SN return code %d", code, a.RC)
				case code <= 2 && a.QoS != code:
					r.Fail(fmt.Sprintf("suback-granted-qos/granted=%d,sent=%d", code, a.QoS), "broker granted QoS %d (requested %d) but the MQTT-SN SUBACK says QoS %d\n%s", code, s.QoS, a.QoS, tr.Dump(25))
				case code <= 2:
					switch {
					case s.TIT == snref.TITPredefined && a.TopicID != s.TopicID:
						r.Fail("suback-topic-id/predefined", "SUBACK for predefined ID %d carries topic ID %d", s.TopicID, a.TopicID)
					case (s.TIT == snref.TITShort || hasWild(s.TopicName)) && a.TopicID != 0:
						r.Fail("suback-topic-id/wildcard-or-short", "SUBACK for %v carries topic ID %d, want 0", s, a.TopicID)
					case s.TIT == snref.TITNormal && !hasWild(s.TopicName) && (a.TopicID == 0 || a.TopicID == 0xffff):
						r.Fail("suback-topic-id/plain", "SUBACK for %q carries topic ID %d", s.TopicName, a.TopicID)
					}
				}
			}
		case st.K == "sn" && st.SN.Type == snref.UNSUBSCRIBE:
			p := *st.SN
			var filter string
			ok := true
			switch p.TIT {
			case snref.TITNormal:
				filter = p.TopicName
			case snref.TITShort:
				filter = snref.ShortName(p.TopicID)
			case snref.TITPredefined:
				filter, ok = gwgen.LookupName(k.predef, k.clientID, p.TopicID)
			}
			if !ok {
				break
			}
			if one("unsubscribe-not-one-to-one", len(gb), "UNSUBSCRIBE") {
				m := gb[0]
				if m.Type != mqttref.UNSUBSCRIBE || m.MsgID != p.MsgID || len(m.Filters) != 1 || m.Filters[0] != filter {
					r.Fail("unsubscribe-translation", "UNSUBSCRIBE %v translated to %v (want filter %q)", p, m, filter)
				}
			}
		case st.K == "sn" && st.SN.Type == snref.PUBREL:
			if one("pubrel-not-one-to-one", len(gb), "PUBREL") && (gb[0].Type != mqttref.PUBREL || gb[0].MsgID != st.SN.MsgID) {
				r.Fail("pubrel-translation", "PUBREL(mid=%d) translated to %v", st.SN.MsgID, gb[0])
			}
		case st.K == "sn" && st.SN.Type == snref.PINGREQ:
			// the auto-broker answers PINGRESP, which must come back to the client
			nping := 0
			for _, m := range gb {
				if m.Type == mqttref.PINGREQ {
					nping++
				}
			}
			one("pingreq-not-one-to-one", nping, "PINGREQ")
			if !undec {
				nresp := 0
				for _, p := range gc {
					if p.Type == snref.PINGRESP {
						nresp++
					}
				}
				one("pingresp-not-one-to-one", nresp, "PINGRESP")
			}
		case st.K == "mq" && (st.MQ.Type == mqttref.PUBREC || st.MQ.Type == mqttref.PUBCOMP || st.MQ.Type == mqttref.UNSUBACK):
			want := map[byte]byte{mqttref.PUBREC: snref.PUBREC, mqttref.PUBCOMP: snref.PUBCOMP, mqttref.UNSUBACK: snref.UNSUBACK}[st.MQ.Type]
			if undec {
				break
			}
			if one(strings.ToLower(mqttref.TypeName(st.MQ.Type))+"-not-one-to-one", len(gc), mqttref.TypeName(st.MQ.Type)) && (gc[0].Type != want || gc[0].MsgID != st.MQ.MsgID) {
				r.Fail("broker-ack-translation", "%v translated to %v", *st.MQ, gc[0])
			}
		case st.K == "mq" && st.MQ.Type == mqttref.PINGRESP:
			if !undec && one("pingresp-not-one-to-one", len(gc), "PINGRESP") && gc[0].Type != snref.PINGRESP {
				r.Fail("broker-ack-translation", "PINGRESP translated to %v", gc[0])
			}
		}
		for j, e := range tr.Events {
			if e.Step == i {
				k.feed(j, e)
			}
		}
	}
	return
}

// ---- C04 ---------------------------------------------------------------------------------

func TestC04(t *testing.T) {
	vf.Check(t, vf.Prop[sessCase]{
		ID: "C04", Name: "topic-ids-unique", Bubble: true,
		Rule: "registration histories (client REGISTER of new and repeated names, SUBSCRIBE by plain name, broker PUBLISH on new names with the client acknowledging the gateway's REGISTER - or leaving it unanswered while a duplicate of its previous REGACK arrives, followed by a client PUBLISH on an ID it was told) run in a session whose topic-ID space is scaled down to 1..N (N in 2..12, through the verif-tagged hook) or, in a third of the cases, is the real range 1..0xFFFE with all but its top N IDs skipped beforehand, with predefined IDs placed inside that range (0xFFFE included) (visible to this client and not), 1-40 steps so that sequences run 2-3x past exhaustion. Non-trivial = the script reaches exhaustion (a refused registration) and continues, or the client publishes on an ID which an earlier step introduced; distinct by script.",
		Assumptions: []string{"scaled cases: the ID range is 1..N instead of 1..0xFFFE, only the range constant is scaled, the allocation logic is the session's own; top-of-range cases: the session's ID sequence is advanced 0xFFFE-N times before the session starts (skipped IDs are never handed out), bounds and wrap-around are the real ones",
			"the same name may get the same ID again (REGISTER) or a new one (second SUBSCRIBE); ending the session instead of refusing is not flagged"},
		Gen: func(t *rapid.T) sessCase {
			return genSession(t, sessOpts{smallIDSpace: true, staleRegack: true, maxSteps: 40})
		},
		Run: func(c sessCase) (r vf.Result) {
			tr := gwsim.Run(c.Script)
			checkIDs(c, tr, &r)
			if len(r.Violations) == 0 {
				// what an ID denotes for the gateway shows when the client uses it
				checkForwarding(c, tr, &r)
			}
			return
		},
	})
}

func checkIDs(c sessCase, tr *gwsim.Trace, r *vf.Result) {
	k := newKnow(c)
	max := c.Script.Cfg.MaxTopicID
	if max == 0 {
		max = 0xfffe
	}
	refused := 0
	pendingReg := map[uint16]bool{}
	for i, e := range tr.Events {
		if e.Dir == gwsim.CG && e.SN != nil && e.SN.Type == snref.REGISTER {
			pendingReg[e.SN.MsgID] = true
		}
		if e.Dir == gwsim.GC && e.SN != nil && e.SN.Type == snref.REGACK && e.SN.RC != 0 && pendingReg[e.SN.MsgID] {
			refused++
		}
		if e.Dir == gwsim.GC && e.SN != nil && e.SN.Type == snref.REGACK {
			delete(pendingReg, e.SN.MsgID)
		}
		k.feed(i, e)
	}
	names := map[uint16]handedID{}
	after := 0
	for _, h := range k.handed {
		if h.id < 1 || h.id > max || h.id == 0xffff {
			r.Fail("id-out-of-range/"+h.how, "%s handed out topic ID %d (range 1..%d)\n%s", h.how, h.id, max, tr.Dump(30))
		}
		if n, ok := gwgen.LookupName(k.predef, k.clientID, h.id); ok {
			r.Fail("id-collides-with-predefined/"+h.how, "%s handed out topic ID %d for %q, but that is predefined topic %q for client %q\n%s", h.how, h.id, h.name, n, k.clientID, tr.Dump(30))
		}
		if prev, ok := names[h.id]; ok && prev.name != h.name {
			kind := "id-reassigned"
			if refused > 0 {
				kind = "id-reused-after-exhaustion"
			}
			r.Fail(kind+"/"+h.how, "topic ID %d was handed out for %q (%s) and later for %q (%s)\n%s", h.id, prev.name, prev.how, h.name, h.how, tr.Dump(40))
		} else if !ok {
			names[h.id] = h
		}
		if refused > 0 {
			after++
		}
	}
	if refused > 0 {
		r.Label("exhausted")
		r.NonTrivial = true
	}
	ids := make([]int, 0, len(names))
	for id := range names {
		ids = append(ids, int(id))
	}
	sort.Ints(ids)
	vf.Count("c04_ids_handed_out", len(k.handed))
}
