package gw

import (
	"fmt"
	"sort"
	"testing"

	"pgregory.net/rapid"

	"verif/harness/gwgen"
	"verif/harness/gwsim"
	"verif/harness/mqttref"
	"verif/harness/snref"
	"verif/harness/vf"
)

// ---- C11: sleeping clients get their traffic buffered and delivered on wake ---------------

type sleepCase struct {
	// LatePingresp: the PINGRESP for a PINGREQ of the still active client arrives while the gateway
	// writes its answer to the sleep announcement
	LatePingresp bool         `json:"late_pingresp,omitempty"`
	Racing       bool         `json:"racing"`
	Cycles       int          `json:"cycles"`
	Script       gwsim.Script `json:"script"`
}

func tagPayload(k int) []byte { return []byte(fmt.Sprintf("msg-%03d", k)) }

func genSleep(t *rapid.T) sleepCase {
	c := sleepCase{}
	sc := &c.Script
	sc.Cfg = gwgen.Cfg(t)
	sc.Cfg.RetryDelayMs = rapid.SampledFrom([]int{1000, 2000, 10000}).Draw(t, "retry_ms")
	sc.Cfg.RetryCount = uint(rapid.IntRange(1, 3).Draw(t, "retries"))
	sc.Cfg.Predef = map[string]map[uint16]string{"*": {1: "p/one"}}
	sc.Auto = gwsim.Auto{Connack: gwgen.U8(0), BrokerAcks: true, ClientRegack: true, ClientAcks: true, BrokerPubrel: true, Suback: "grant"}
	maybeEager(t, sc)
	keepalive := uint16(rapid.SampledFrom([]int{5, 30, 600}).Draw(t, "keepalive"))
	add := func(s ...gwsim.Step) { sc.Steps = append(sc.Steps, s...) }
	add(connectSteps(sc.Cfg, "cl", keepalive)...)
	add(gwgen.SN(gwgen.SubscribeName("#", 1, 1)), gwgen.SN(gwgen.SubscribeName("t/a", 1, 2)))
	c.Cycles = rapid.IntRange(1, 4).Draw(t, "cycles")
	k := 0
	topics := []string{"ab", "p/one", "t/a", "ab", "p/one", "t/a", "new/x"}
	pub := func() gwsim.Step {
		k++
		topic := rapid.SampledFrom(topics).Draw(t, "topic")
		qos := byte(rapid.SampledFrom([]int{0, 0, 1, 2}).Draw(t, "qos"))
		return gwgen.MQ(gwgen.BPublish(topic, qos, uint16(100+k), tagPayload(k), false, false))
	}
	advs := []int{10, 300, 990, 1010, 2500, 4000}
	for cy := 0; cy < c.Cycles; cy++ {
		dur := uint16(rapid.SampledFrom([]int{2, 5, 20, 60}).Draw(t, "sleepdur"))
		if cy == 0 && rapid.IntRange(0, 3).Draw(t, "late_pingresp") == 0 {
			// the client pings, the broker is slow, the client announces its sleep - and the broker's
			// PINGRESP arrives while the gateway is writing its answer to that announcement
			quiet := sc.Auto
			quiet.BrokerAcks = false
			add(gwgen.SetAuto(quiet), gwgen.SN(gwgen.Pingreq("")), gwgen.SetAuto(sc.Auto),
				gwsim.Step{K: "mq-at-snwrite", MQ: &mqttref.Pkt{Type: mqttref.PINGRESP}, D: int64(rapid.SampledFrom([]int{1, 3, 10}).Draw(t, "yield"))})
			c.LatePingresp = true
		}
		add(gwgen.SN(gwgen.Disconnect(dur)))
		wakes := rapid.IntRange(1, 3).Draw(t, "wakes")
		for w := 0; w < wakes; w++ {
			n := rapid.IntRange(0, 3).Draw(t, "npub")
			for i := 0; i < n; i++ {
				if rapid.Bool().Draw(t, "gap") {
					add(gwgen.Adv(int64(rapid.SampledFrom(advs).Draw(t, "gapms"))))
				}
				add(pub())
			}
			if rapid.Bool().Draw(t, "gap2") {
				add(gwgen.Adv(int64(rapid.SampledFrom(advs).Draw(t, "gapms2"))))
			}
			if race := rapid.IntRange(0, 7).Draw(t, "race"); race == 2 || race == 3 {
				// a burst of publishes hits the gateway at the same instant as the PINGREQ, which is
				// injected somewhere inside the burst (no settling anywhere in between)
				c.Racing = true
				nb := rapid.IntRange(2, 8).Draw(t, "burst")
				at := rapid.IntRange(0, nb).Draw(t, "pingat")
				for i := 0; i <= nb; i++ {
					var st gwsim.Step
					if i == at {
						st = gwgen.SN(gwgen.Pingreq("cl"))
					} else {
						st = pub()
					}
					st.NoWait = i < nb
					add(st)
				}
			} else if race <= 1 {
				// a publish hits the gateway at the same instant as the PINGREQ
				c.Racing = true
				if rapid.Bool().Draw(t, "raceorder") {
					p := pub()
					p.NoWait = true
					add(p, gwgen.SN(gwgen.Pingreq("cl")))
				} else {
					p := gwgen.SN(gwgen.Pingreq("cl"))
					p.NoWait = true
					add(p, pub())
				}
			} else {
				add(gwgen.SN(gwgen.Pingreq("cl")))
			}
			// between PINGRESP and the next wake-up the client is asleep again
			if rapid.Bool().Draw(t, "postwake") {
				add(gwgen.Adv(int64(rapid.SampledFrom(advs).Draw(t, "postms"))), pub())
			}
		}
		// leave the sleep cycle
		if cy == c.Cycles-1 || rapid.Bool().Draw(t, "reconnect") {
			add(gwgen.SN(gwgen.Connect("cl", keepalive, false, false)))
			add(gwgen.Adv(int64(rapid.SampledFrom([]int{10, 1500}).Draw(t, "activems"))))
			if cy != c.Cycles-1 {
				add(pub())
			}
		} else {
			// next cycle starts from the asleep state with a fresh DISCONNECT(duration)
		}
	}
	sc.TailMs = 100
	return c
}

func TestC11(t *testing.T) {
	vf.Check(t, vf.Prop[sleepCase]{
		ID: "C11", Name: "sleep-buffering", Bubble: true,
		Rule: "connected session subscribed to '#'; 1-4 sleep cycles (before the first, in a quarter of the cases, a PINGREQ of the still active client whose PINGRESP the broker sends while the gateway is writing its answer to the sleep announcement), each DISCONNECT(duration) followed by 1-3 wake-ups (PINGREQ with client ID) and ended by CONNECT (or by the next DISCONNECT(duration)); 0-3 broker publishes (QoS 0/1/2; short, predefined, registered and new topics; uniquely tagged payloads) before each wake-up at drawn offsets around RetryDelay, optionally one, or a burst of 2-8 with the PINGREQ somewhere inside it, at the same instant as the PINGREQ (no settling between the injections), optionally one between PINGRESP and the next wake-up. Non-trivial = at least one publish buffered during sleep; labels separate racing publishes and second-or-later cycles; distinct by script.",
		Assumptions: []string{"client state per doc/specification-interpretation.md: asleep from the gateway's DISCONNECT reply until PINGREQ, awake until the PINGRESP, asleep again until PINGREQ / CONNECT / DISCONNECT",
			"publishes on topics that need a REGISTER first must be silent during sleep, are delivered at most once, and must have been delivered by the time the client is active again at the end of the history (their PUBLISH follows the client's REGACK: in which flush is not constrained)",
			"which flush a publish racing with the PINGREQ lands in is not constrained; the order among the broker's messages is"},
		Gen: genSleep,
		Run: func(c sleepCase) (r vf.Result) {
			tr := gwsim.Run(c.Script)
			checkSleep(c, tr, &r)
			return
		},
	})
}

func payloadTag(b []byte) string {
	if len(b) == 7 && string(b[:4]) == "msg-" {
		return string(b)
	}
	return ""
}

func checkSleep(c sleepCase, tr *gwsim.Trace, r *vf.Result) {
	const (
		active = iota
		goingAsleep
		asleep
		awake
		reconnecting
	)
	st := active
	connected := false
	var owed []string          // tags of broker publishes the gateway owes the client, in order (known topics only)
	loose := map[string]bool{} // tags on topics needing a REGISTER: at most once
	delivered := map[string]int{}
	racingTags := map[string]bool{}
	inFlush := map[string]int{} // tag -> number of the flush it was delivered in
	flushNo := 0
	buffered := 0
	cycle := 0
	known := map[string]bool{"ab": true, "p/one": true, "t/a": true}
	for i := range tr.Events {
		e := tr.Events[i]
		if e.Dir == gwsim.EV && e.What == "END" {
			break
		}
		switch e.Dir {
		case gwsim.CG:
			if e.SN == nil {
				continue
			}
			switch e.SN.Type {
			case snref.DISCONNECT:
				if e.SN.Duration > 0 && (st == active || st == asleep) {
					if st == active {
						cycle++
					}
					st = goingAsleep
				}
			case snref.PINGREQ:
				if st == asleep && len(e.SN.ClientID) > 0 {
					st = awake
					flushNo++
				}
			case snref.CONNECT:
				if st == asleep || st == awake {
					st = reconnecting
				}
			}
		case gwsim.BG:
			if e.MQ != nil && e.MQ.Type == mqttref.CONNACK && e.MQ.RC == 0 {
				connected = true
			}
			if e.MQ != nil && e.MQ.Type == mqttref.PUBLISH && !e.Auto {
				tag := payloadTag(e.MQ.Payload)
				if tag == "" {
					continue
				}
				if !known[e.MQ.Topic] {
					loose[tag] = true
				} else {
					owed = append(owed, tag)
				}
				if st == asleep || st == goingAsleep {
					buffered++
					if cycle > 1 {
						r.Label("buffered-in-later-cycle")
					}
				}
				// racing: injected at the same instant as a PINGREQ without settling in between
				if racesWithPing(c, tr, i) {
					racingTags[tag] = true
				}
			}
		case gwsim.GC:
			if !connected {
				continue
			}
			if e.SN == nil {
				continue // C23's business
			}
			p := *e.SN
			if st == asleep {
				r.Fail("sent-while-asleep/"+snref.TypeName(p.Type)+fmt.Sprintf("/cycle=%d", min(cycle, 2)), "gateway sent %v while the client is asleep (cycle %d)\n%s", p, cycle, traceAround(tr, i))
			}
			switch p.Type {
			case snref.DISCONNECT:
				if st == goingAsleep {
					st = asleep
				}
			case snref.PINGRESP:
				if st == awake {
					st = asleep
				}
			case snref.CONNACK:
				if st == reconnecting && p.RC == 0 {
					st = active
				}
			case snref.PUBLISH:
				tag := payloadTag(p.Data)
				if tag == "" || p.DUP && false {
					continue
				}
				if delivered[tag] > 0 && st == awake && inFlush[tag] == flushNo {
					// a second copy of the same message inside one wake-up flush
					r.Fail("duplicate-in-flush", "flush contains another copy of %s (DUP=%v): delivered more than once\n%s", tag, p.DUP, traceAround(tr, i))
					continue
				}
				if p.DUP && delivered[tag] > 0 {
					continue // a retransmission to a client that has not acknowledged yet
				}
				inFlush[tag] = flushNo
				delivered[tag]++
				if delivered[tag] > 1 {
					r.Fail("delivered-twice", "%s delivered %d times\n%s", tag, delivered[tag], traceAround(tr, i))
				}
				if loose[tag] {
					continue
				}
				// order: must be the oldest owed tag (a racing tag may be overtaken / overtake only by being deferred to the next flush)
				if len(owed) == 0 {
					r.Fail("unexpected-delivery", "%s delivered but not owed\n%s", tag, traceAround(tr, i))
					continue
				}
				idx := -1
				for j, o := range owed {
					if o == tag {
						idx = j
						break
					}
				}
				if idx < 0 {
					continue
				}
				// The gateway takes the broker's packets in one at a time, so the order among them is
				// fixed whichever flush a racing one lands in: only the oldest owed message may come.
				for _, o := range owed[:idx] {
					r.Fail("delivered-out-of-order", "%s delivered before %s which the broker sent earlier\n%s", tag, o, traceAround(tr, i))
					break
				}
				owed = append(owed[:idx], owed[idx+1:]...)
			}
		}
		// at the PINGRESP that ends a flush everything owed (non-racing) must have been delivered
		if e.Dir == gwsim.GC && e.SN != nil && e.SN.Type == snref.PINGRESP && connected {
			for _, o := range owed {
				if !racingTags[o] && !publishedAfter(tr, o, flushStart(tr, i)) {
					r.Fail("not-delivered-on-wake", "%s was buffered during sleep but not delivered in the wake-up flush that ended with this PINGRESP\n%s", o, traceAround(tr, i))
					break
				}
			}
		}
	}
	// at the end (client active again) nothing may be missing
	if st == active && tr.Ended == false {
		for _, o := range owed {
			r.Fail("never-delivered", "%s was never delivered although the client returned to the active state\n%s", o, tr.Dump(40))
			break
		}
		// ... and that includes the messages on topics which needed a REGISTER first: the REGISTER is
		// one of the packets the gateway "would have sent", the client has acknowledged it by now
		// (the scripted client answers every REGISTER at once), and the PUBLISH follows
		var tags []string
		for tag := range loose {
			tags = append(tags, tag)
		}
		sort.Strings(tags)
		for _, tag := range tags {
			if delivered[tag] == 0 && !racingTags[tag] {
				r.Fail("never-delivered/new-topic", "%s (on a topic which needed a REGISTER) was never delivered although the client woke up, acknowledged the REGISTER and returned to the active state\n%s", tag, tr.Dump(60))
				break
			}
		}
	}
	r.NonTrivial = buffered > 0
	if c.Racing {
		r.Label("racing-publish")
	}
	if cycle > 1 {
		r.Label("multi-cycle")
	}
}

// racesWithPing: the broker publish at event i was injected in an unbroken run of script steps without
// settling (NoWait) which contains a wake-up PINGREQ, all at the same virtual instant.
func racesWithPing(c sleepCase, tr *gwsim.Trace, i int) bool {
	e := tr.Events[i]
	if e.Step < 0 {
		return false
	}
	steps := c.Script.Steps
	lo, hi := e.Step, e.Step
	for lo > 0 && steps[lo-1].NoWait {
		lo--
	}
	for hi < len(steps)-1 && steps[hi].NoWait {
		hi++
	}
	for k := lo; k <= hi; k++ {
		if steps[k].SN != nil && steps[k].SN.Type == snref.PINGREQ {
			return true
		}
	}
	return false
}

// flushStart returns the time of the latest client PINGREQ before event i.
func flushStart(tr *gwsim.Trace, i int) int64 {
	for j := i; j >= 0; j-- {
		if tr.Events[j].Dir == gwsim.CG && tr.Events[j].SN != nil && tr.Events[j].SN.Type == snref.PINGREQ {
			return tr.Events[j].Ns
		}
	}
	return 0
}

// publishedAfter reports whether the broker publish tagged tag arrived at or after ns
// (then it was not buffered before the wake-up and this flush does not owe it).
func publishedAfter(tr *gwsim.Trace, tag string, ns int64) bool {
	for _, e := range tr.Events {
		if e.Dir == gwsim.BG && e.MQ != nil && e.MQ.Type == mqttref.PUBLISH && payloadTag(e.MQ.Payload) == tag {
			return e.Ns >= ns
		}
	}
	return false
}

func traceAround(tr *gwsim.Trace, i int) string {
	lo, hi := i-18, i+4
	if lo < 0 {
		lo = 0
	}
	if hi > len(tr.Events) {
		hi = len(tr.Events)
	}
	s := ""
	for j := lo; j < hi; j++ {
		mark := "   "
		if j == i {
			mark = ">> "
		}
		s += mark + tr.Events[j].String() + "\n"
	}
	return s
}
