package gw

import (
	"fmt"
	"testing"

	"pgregory.net/rapid"

	"verif/harness/gwgen"
	"verif/harness/gwsim"
	"verif/harness/mqttref"
	"verif/harness/snref"
	"verif/harness/vf"
)

// ---- C13 / C14: termination ---------------------------------------------------------------

type termCase struct {
	Prefix  string       `json:"prefix"`  // model state at the cause: fresh, midconnect, active, asleep, asleep-pinger, awake, reconnected
	Cause   string       `json:"cause"`   // cancel, disconnect, mqclose, badsn, illegal, badmq
	Pending []string     `json:"pending"` // exchanges left open at the cause
	Script  gwsim.Script `json:"script"`
	CauseAt int          `json:"cause_step"`
	// Unreachable: the client's address is unreachable when the cause arrives (writes to it fail).
	Unreachable bool `json:"unreachable,omitempty"`
	// LateDisconnect: after a gateway shutdown the client sends a plain DISCONNECT (its answer to the
	// gateway's DISCONNECT) within the poll interval.
	LateDisconnect bool `json:"late_disconnect,omitempty"`
	// BrokerSilent: the connect exchange is complete on the client's side and the broker has not
	// answered the MQTT CONNECT yet.
	BrokerSilent bool `json:"broker_silent,omitempty"`
	// BrokerCloses: the broker closes the connection as soon as it has the MQTT DISCONNECT: two causes
	// then meet (the client's DISCONNECT, the broker closing), and whether the gateway's answer to
	// the client's DISCONNECT still gets out before the session is torn down is not fixed by C13 (the
	// farewell DISCONNECT of the statement is not owed: the client disconnected itself).
	BrokerCloses bool `json:"broker_closes,omitempty"`
}

func genTerm(t *rapid.T) termCase {
	c := termCase{}
	sc := &c.Script
	sc.Cfg = gwgen.Cfg(t)
	sc.Cfg.RetryDelayMs = rapid.SampledFrom([]int{1000, 10000}).Draw(t, "retry")
	sc.Cfg.Predef = map[string]map[uint16]string{"*": {1: "p/one"}}
	sc.Auto = gwsim.Auto{Connack: gwgen.U8(0), BrokerAcks: true, ClientRegack: true, ClientAcks: true, BrokerPubrel: true, Suback: "grant"}
	maybeEager(t, sc)
	c.Prefix = rapid.SampledFrom([]string{"fresh", "midconnect", "active", "active", "active", "asleep", "asleep-pinger", "resleep", "awake", "reconnected"}).Draw(t, "prefix")
	keepalive := uint16(rapid.SampledFrom([]int{10, 60}).Draw(t, "keepalive"))
	add := func(s ...gwsim.Step) { sc.Steps = append(sc.Steps, s...) }
	switch c.Prefix {
	case "fresh":
	case "midconnect":
		switch rapid.IntRange(0, 3).Draw(t, "mid") {
		case 0: // broker silent
			sc.Auto.Connack = nil
			c.BrokerSilent = true
			add(connectSteps(sc.Cfg, "cl", keepalive)...)
		case 3: // the whole exchange with a will done, broker silent
			sc.Auto.Connack = nil
			c.BrokerSilent = true
			add(gwgen.SN(gwgen.Connect("cl", keepalive, true, true)))
			if sc.Cfg.Auth {
				add(gwgen.SN(gwgen.AuthPlain("alice", []byte("secret"))))
			}
			add(gwgen.SN(gwgen.WillTopic("w/t", 1, false)), gwgen.SN(gwgen.WillMsg([]byte("gone"))))
		case 1: // waiting for WILLTOPIC / AUTH
			add(gwgen.SN(gwgen.Connect("cl", keepalive, true, true)))
		default: // waiting for WILLMSG
			add(gwgen.SN(gwgen.Connect("cl", keepalive, true, true)))
			if sc.Cfg.Auth {
				add(gwgen.SN(gwgen.AuthPlain("alice", []byte("secret"))))
			}
			add(gwgen.SN(gwgen.WillTopic("w/t", 0, false)))
		}
	default:
		add(connectSteps(sc.Cfg, "cl", keepalive)...)
		// some activity, some of it left pending
		n := rapid.IntRange(0, 4).Draw(t, "nact")
		for i := 0; i < n; i++ {
			mid := uint16(i + 1)
			switch rapid.IntRange(0, 5).Draw(t, "act") {
			case 0:
				add(gwgen.SN(gwgen.Register("t/a", mid)))
			case 1:
				add(gwgen.SN(gwgen.SubscribeName("t/#", 1, mid)))
			case 2: // client QoS 1 publish the broker never acknowledges
				add(gwgen.SetAuto(gwsim.Auto{Connack: gwgen.U8(0), ClientRegack: true, ClientAcks: true, Suback: "grant"}),
					gwgen.SN(gwgen.Publish(snref.TITShort, snref.ShortID("ab"), 1, mid, []byte("x"))))
				c.Pending = append(c.Pending, "client-qos1")
			case 3: // broker QoS 1/2 publish the client never acknowledges
				add(gwgen.SetAuto(gwsim.Auto{Connack: gwgen.U8(0), BrokerAcks: true, ClientRegack: true, Suback: "grant"}),
					gwgen.MQ(gwgen.BPublish("ab", byte(rapid.IntRange(1, 2).Draw(t, "bqos")), 100+mid, []byte("y"), false, false)))
				c.Pending = append(c.Pending, "broker-qos12")
			case 4: // broker publish on a new topic, REGISTER never acknowledged
				add(gwgen.SetAuto(gwsim.Auto{Connack: gwgen.U8(0), BrokerAcks: true, Suback: "grant"}),
					gwgen.MQ(gwgen.BPublish(fmt.Sprintf("new/%d", i), byte(rapid.IntRange(0, 2).Draw(t, "bqos")), 200+mid, []byte("z"), false, false)))
				c.Pending = append(c.Pending, "gw-register")
			default:
				add(gwgen.Adv(int64(rapid.SampledFrom([]int{10, 150, 1100}).Draw(t, "gap"))))
			}
		}
		switch c.Prefix {
		case "asleep":
			add(gwgen.SN(gwgen.Disconnect(keepalive / 2)))
		case "asleep-pinger":
			// (durations whose low or high byte is zero included)
			dur := rapid.SampledFrom([]uint16{keepalive * 3, keepalive * 3, 256, 512, 0xff00, 0x0101}).Draw(t, "longsleep")
			add(gwgen.SN(gwgen.Disconnect(dur)), gwgen.Adv(int64(rapid.SampledFrom([]int{100, 1500}).Draw(t, "slept"))))
		case "resleep":
			// asleep, optionally woken up once, then a new sleep duration is announced while still asleep
			add(gwgen.SN(gwgen.Disconnect(keepalive/2)), gwgen.Adv(int64(rapid.SampledFrom([]int{100, 1500}).Draw(t, "slept"))))
			if rapid.Bool().Draw(t, "wake_between") {
				add(gwgen.SN(gwgen.Pingreq("cl")), gwgen.Adv(200))
			}
			add(gwgen.SN(gwgen.Disconnect(rapid.SampledFrom([]uint16{keepalive / 2, keepalive * 3, 256}).Draw(t, "resleep_dur"))), gwgen.Adv(300))
		case "awake", "reconnected":
			add(gwgen.SN(gwgen.Disconnect(keepalive*rapid.SampledFrom([]uint16{1, 3}).Draw(t, "sleepk"))), gwgen.Adv(500),
				gwgen.MQ(gwgen.BPublish("ab", 0, 0, []byte("while asleep"), false, false)),
				gwgen.SN(gwgen.Pingreq("cl")))
			if c.Prefix == "reconnected" {
				add(gwgen.SN(gwgen.Connect("cl", keepalive, false, true)))
			}
		}
	}
	causes := []string{"cancel", "disconnect", "mqclose", "badsn", "badmq", "sneof"}
	if c.Prefix == "fresh" || c.Prefix == "midconnect" {
		causes = append(causes, "illegal")
	}
	if c.Prefix == "active" && rapid.IntRange(0, 3).Draw(t, "stalled") == 0 {
		// The broker has stopped reading (full socket buffer) and the session is stuck in a write to
		// it when the cause arrives. A session stuck like that reads no datagrams, so only causes
		// which do not have to be read from the MQTT-SN link are drawn.
		add(gwsim.Step{K: "mqstall"}, gwgen.SN(gwgen.Publish(snref.TITShort, snref.ShortID("ab"), 0, 0, []byte("blocked"))))
		c.Pending = append(c.Pending, "blocked-broker-write")
		causes = []string{"cancel", "cancel", "mqclose", "badmq"}
	}
	if c.BrokerSilent {
		// the broker accepts the connection at last, but the client has become unreachable: the
		// CONNACK cannot be sent
		causes = append(causes, "connack-undeliverable", "connack-undeliverable")
	}
	c.Cause = rapid.SampledFrom(causes).Draw(t, "cause")
	if c.Cause == "connack-undeliverable" || (c.Cause == "cancel" || c.Cause == "mqclose" || c.Cause == "badmq") && rapid.IntRange(0, 4).Draw(t, "unreachable") == 0 {
		// the client has vanished and its address is unreachable: the farewell DISCONNECT cannot be sent
		c.Unreachable = true
		add(gwsim.Step{K: "snfail"})
	}
	if rapid.Bool().Draw(t, "pause") {
		add(gwgen.Adv(int64(rapid.SampledFrom([]int{1, 99, 100, 101, 950}).Draw(t, "pause_ms"))))
	}
	c.CauseAt = len(sc.Steps)
	switch c.Cause {
	case "cancel":
		add(gwgen.Cancel())
		if !c.Unreachable && rapid.IntRange(0, 2).Draw(t, "client_acks_disconnect") == 0 {
			// the client answers the gateway's farewell DISCONNECT with a DISCONNECT of its own, which
			// arrives while the session is winding down: the session was ended by the shutdown, so
			// the will must not be cancelled
			add(gwgen.Adv(int64(rapid.SampledFrom([]int{1, 20, 60, 99}).Draw(t, "ack_ms"))), gwgen.SN(plainDisconnect(t)))
			c.LateDisconnect = true
		}
	case "disconnect":
		if rapid.Bool().Draw(t, "broker_closes_on_disconnect") {
			// a conforming broker closes the connection as soon as it has the MQTT DISCONNECT
			a := sc.Auto
			a.CloseOnDisconnect = true
			add(gwgen.SetAuto(a))
			c.CauseAt++
			c.BrokerCloses = true
		}
		add(gwgen.SN(plainDisconnect(t)))
	case "mqclose":
		add(gwgen.MQClose())
	case "connack-undeliverable":
		add(gwgen.MQ(mqttref.Pkt{Type: mqttref.CONNACK, RC: 0}))
	case "sneof":
		add(gwsim.Step{K: "snclose"})
	case "badsn":
		raw := rapid.SampledFrom([][]byte{{0x02, 0xfe}, {0x03, 0x05}, {0x05, 0x0c, 0x00, 0x00, 0x00}, {0x01}, {}}).Draw(t, "badsn")
		add(gwsim.Step{K: "snraw", Raw: raw})
	case "illegal":
		add(gwgen.SN(rapid.SampledFrom([]snref.Pkt{gwgen.Register("t/x", 1), gwgen.Pingreq(""), gwgen.SubscribeName("a", 0, 1), {Type: snref.PUBACK}, {Type: snref.ADVERTISE}}).Draw(t, "illegal")))
	case "badmq":
		raw := rapid.SampledFrom([][]byte{{0xf0, 0x00}, {0x00, 0x00}, {0x30, 0x01, 0x00}, {0xff, 0xff, 0xff, 0xff, 0xff}, {0x20, 0x01, 0x00}}).Draw(t, "badmq")
		add(gwsim.Step{K: "mqraw", Raw: raw})
	}
	sc.TailMs = 400
	return c
}

func causeEvent(tr *gwsim.Trace, step int) (int, *gwsim.Event) {
	for i := range tr.Events {
		if tr.Events[i].Step == step {
			return i, &tr.Events[i]
		}
	}
	return -1, nil
}

func TestC13(t *testing.T) {
	vf.Check(t, vf.Prop[termCase]{
		ID: "C13", Name: "clean-termination", Bubble: true, DeadlockIsViolation: true,
		Rule: "a session prefix (fresh / mid connect exchange with the broker silent or WILL*/AUTH outstanding / active with 0-4 operations some left pending: unacknowledged client QoS 1 publish, unacknowledged broker QoS 1/2 publish, unacknowledged gateway REGISTER / asleep without and with a running sleep pinger (sleep durations with a zero low or high byte included) / asleep and announcing a new sleep duration / after a wake-up / reconnected after a wake-up) followed, after a drawn pause around the poll interval, by one termination cause: gateway shutdown, client plain DISCONNECT (in half of the cases the broker closes the connection the moment it has the MQTT DISCONNECT), broker closing the connection, undecodable datagram, the client's transport closed by the peer (EOF, as after a DTLS close_notify), illegal packet while disconnected, undecodable MQTT bytes, the broker's CONNACK arriving when the client has become unreachable (the CONNACK cannot be sent); for the causes which need no datagram the client is, in a fifth of the cases, unreachable by then (writes to it fail); in a quarter of the active prefixes the broker has stopped reading and a write to it is pending; after a third of the gateway shutdowns the client answers the farewell DISCONNECT with a plain DISCONNECT of its own 1-99 ms later. Non-trivial = cause other than a clean DISCONNECT of an idle active session, or pending exchanges/pinger at the cause; distinct by (prefix, cause, pending, script).",
		Assumptions: []string{"bound: run returns within 100 ms (poll interval) + 1 ms of the cause on the virtual clock; sends are instantaneous on the in-memory links",
			"the DISCONNECT-count clause is asserted in model states on which specification and implementation cannot disagree (never connected, active, asleep before the first wake-up); after a wake-up only termination, close and the goroutine census are asserted",
			"the 'broker unreachable' cause needs a real dial and is checked by the separate part dial-failure"},
		Gen: genTerm,
		Run: func(c termCase) (r vf.Result) {
			tr := gwsim.Run(c.Script)
			checkTermination("C13", c, tr, &r)
			return
		},
	})
}

func TestC14(t *testing.T) {
	vf.Check(t, vf.Prop[termCase]{
		ID: "C14", Name: "will-cancelled-only-by-disconnect", Bubble: true,
		Assumptions: []string{"a plain DISCONNECT which the client sends only after the gateway's shutdown has begun (its answer to the farewell DISCONNECT) does not make the ending a client disconnect: the session ended by 'gateway shutdown', which the statement lists among the endings without MQTT DISCONNECT; one arriving at the very instant of the shutdown is not generated"},
		Rule: "same generator as C13 (session prefix x termination cause, sleep included). Non-trivial = cause other than the client's plain DISCONNECT, or a plain DISCONNECT from a state other than idle active; distinct by (prefix, cause, pending, script).",
		Gen:  genTerm,
		Run: func(c termCase) (r vf.Result) {
			tr := gwsim.Run(c.Script)
			checkTermination("C14", c, tr, &r)
			return
		},
	})
}

func checkTermination(which string, c termCase, tr *gwsim.Trace, r *vf.Result) {
	ci, ce := causeEvent(tr, c.CauseAt)
	r.Label("prefix=" + c.Prefix, "cause=" + c.Cause)
	r.NonTrivial = c.Cause != "disconnect" || c.Prefix != "active" || len(c.Pending) > 0
	if ce == nil {
		r.Fail("harness", "cause step left no event")
		return
	}
	if which == "C14" {
		// at any point of the history: an MQTT DISCONNECT needs a plain client DISCONNECT before it
		plain := false
		for j, e := range tr.Events {
			if e.Dir == gwsim.CG && e.SN != nil && e.SN.Type == snref.DISCONNECT && e.SN.Duration == 0 && !(c.LateDisconnect && j > ci) {
				plain = true
			}
			if e.Dir == gwsim.GB && e.MQ != nil && e.MQ.Type == mqttref.DISCONNECT && !plain {
				r.Fail("mqtt-disconnect-without-client-disconnect/"+c.Cause+"/"+c.Prefix, "broker got an MQTT DISCONNECT although the client has sent no DISCONNECT without duration (the will is cancelled)\n%s", tr.Dump(30))
				return
			}
		}
	}
	// the session may already have ended before the cause (e.g. connect timeout in a long pause): then nothing is owed
	if tr.Ended && tr.EndNs < ce.Ns {
		r.Label("ended-before-cause")
		r.NonTrivial = false
		return
	}
	if which == "C13" {
		const bound = int64(100+1) * 1e6
		if !tr.Ended {
			r.Fail("not-terminated/"+c.Cause+"/"+c.Prefix, "session did not end within %d ms of %s\n%s", c.Script.TailMs, c.Cause, tr.Dump(30))
			return
		}
		if tr.EndNs > ce.Ns+bound {
			r.Fail("terminated-late/"+c.Cause+"/"+c.Prefix, "session ended %.3f s after %s (bound 0.101 s)\n%s", float64(tr.EndNs-ce.Ns)/1e9, c.Cause, tr.Dump(30))
		}
		if !tr.MQClosed {
			r.Fail("broker-connection-left-open/"+c.Cause, "session ended but the broker connection was not closed\n%s", tr.Dump(30))
		}
		if len(tr.Leaked) > 0 {
			r.Fail("goroutine-outlives-session/"+c.Cause+"/"+c.Prefix, "goroutines of the session still alive after it ended: %v", tr.Leaked)
		}
		// DISCONNECTs to the client after the cause
		n, undec := 0, false
		for _, e := range tr.Events[ci+1:] {
			if e.Dir == gwsim.GC {
				if e.SN == nil {
					undec = true
				} else if e.SN.Type == snref.DISCONNECT {
					n++
				}
			}
		}
		want := -1
		switch c.Prefix {
		case "fresh", "midconnect":
			want = 0
			if c.Cause == "disconnect" {
				want = 1
			}
		case "active":
			want = 1
		case "asleep", "asleep-pinger", "resleep":
			want = 0
			if c.Cause == "disconnect" {
				want = 1
			}
		}
		if c.Unreachable {
			want = -1 // nothing can be delivered
			r.Label("client-unreachable")
		}
		if c.BrokerCloses {
			r.Label("broker-closes-on-disconnect")
			if want == 1 && n <= 1 {
				want = -1 // the answer may or may not get out; never more than one DISCONNECT
			}
		}
		if want >= 0 && n != want && !undec {
			r.Fail(fmt.Sprintf("disconnect-count/%s/%s/want=%d,got=%d", c.Prefix, c.Cause, want, n), "client received %d DISCONNECT(s) after %s in state %s, expected %d\n%s", n, c.Cause, c.Prefix, want, tr.Dump(30))
		}
	}
	if which == "C14" {
		// MQTT DISCONNECT on the broker stream iff the client sent a plain DISCONNECT
		first := -1
		for i, e := range tr.Events {
			if e.Dir == gwsim.GB && e.MQ != nil && e.MQ.Type == mqttref.DISCONNECT {
				if first < 0 {
					first = i
				}
			}
		}
		if c.Cause == "disconnect" {
			if first < 0 {
				if !tr.Ended || tr.EndNs > ce.Ns+101e6 {
					return // C13's business
				}
				r.Fail("mqtt-disconnect-missing/"+c.Prefix, "client sent a plain DISCONNECT but the broker got no MQTT DISCONNECT (the will will be published)\n%s", tr.Dump(30))
				return
			}
			if first < ci {
				r.Fail("mqtt-disconnect-before-client-disconnect/"+c.Prefix, "MQTT DISCONNECT sent before the client's DISCONNECT\n%s", tr.Dump(30))
			}
			for _, e := range tr.Events[first+1:] {
				if e.Dir == gwsim.GB {
					r.Fail("traffic-after-mqtt-disconnect/"+c.Prefix, "%v written to the broker after the MQTT DISCONNECT\n%s", e, tr.Dump(30))
					break
				}
			}
		} else if first >= 0 {
			r.Fail("mqtt-disconnect-without-client-disconnect/"+c.Cause+"/"+c.Prefix, "broker got an MQTT DISCONNECT although the session ended by %s (the will is cancelled)\n%s", c.Cause, tr.Dump(30))
		}
	}
}

// ---- C13, cause "broker unreachable" (real loopback dial, real time) --------------------------

type dialCase struct {
	Auth     bool `json:"auth"`
	Sessions int  `json:"sessions"`
	FirstPkt bool `json:"first_packet"` // a CONNECT datagram is already waiting when the session starts
}

func TestC13Dial(t *testing.T) {
	vf.Check(t, vf.Prop[dialCase]{
		ID: "C13", Name: "dial-failure",
		Rule: "1-4 sessions started while the broker address refuses connections (a loopback port that was just closed), auth on/off, with or without a CONNECT datagram already queued; every case is non-trivial (a termination cause other than a clean DISCONNECT); distinct by case.",
		Assumptions: []string{"real sockets and real time: the dial fails with ECONNREFUSED within milliseconds; 2 s is allowed for the session to return and a timeout is reported as inconclusive, not as a violation"},
		Gen: func(t *rapid.T) dialCase {
			return dialCase{Auth: rapid.Bool().Draw(t, "auth"), Sessions: rapid.IntRange(1, 4).Draw(t, "n"), FirstPkt: rapid.Bool().Draw(t, "first")}
		},
		Run: runDialCase,
	})
}

// plainDisconnect draws one of the two encodings of a DISCONNECT without sleep: without the
// Duration field, or with the field present and zero (04 18 00 00).
func plainDisconnect(t *rapid.T) snref.Pkt {
	p := gwgen.Disconnect(0)
	if rapid.IntRange(0, 2).Draw(t, "explicit_zero") == 0 {
		p.NoDuration, p.ForceDuration = false, true
	}
	return p
}
