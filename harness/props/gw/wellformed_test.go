package gw

import (
	"bytes"
	"fmt"
	"strings"
	"testing"

	"pgregory.net/rapid"

	"verif/harness/gwgen"
	"verif/harness/gwsim"
	"verif/harness/mqttref"
	"verif/harness/snref"
	"verif/harness/vf"
)

// ---- C23 (gateway side): every datagram sent to the client is well-formed -----------------

type wfCase struct {
	Paths  []string     `json:"paths"`
	Script gwsim.Script `json:"script"`
}

func genBigPayload(t *rapid.T) []byte {
	n := rapid.OneOf(
		rapid.SampledFrom([]int{0, 1, 250, 251, 7168, 8180, 8183, 8184, 8185, 8186, 8187, 8188, 8192, 8193, 9000, 65520, 65528, 65529, 65530, 65531, 65532, 65535, 65536, 70000}),
		rapid.IntRange(0, 70000)).Draw(t, "biglen")
	return vf.Payload{N: n, Fill: rapid.Byte().Draw(t, "fill")}.Bytes()
}

func genWellFormedGW(t *rapid.T) wfCase {
	c := wfCase{}
	sc := &c.Script
	sc.Cfg = gwgen.Cfg(t)
	sc.Cfg.RetryDelayMs = 1000
	sc.Cfg.RetryCount = uint(rapid.IntRange(0, 2).Draw(t, "retries"))
	sc.Cfg.Predef = map[string]map[uint16]string{"*": {1: "p/one"}, "cl": {2: "p/two"}}
	sc.Cfg.MaxTopicID = uint16(rapid.SampledFrom([]int{0, 0, 3, 4}).Draw(t, "max_topic_id"))
	sc.Auto = gwsim.Auto{Connack: gwgen.U8(byte(rapid.SampledFrom([]int{0, 0, 0, 0, 2, 5}).Draw(t, "connack"))), BrokerAcks: true,
		ClientRegack: rapid.IntRange(0, 4).Draw(t, "regack") > 0, ClientAcks: rapid.IntRange(0, 4).Draw(t, "acks") > 0, BrokerPubrel: true, Suback: rapid.SampledFrom([]string{"grant", "fail", "1"}).Draw(t, "suback")}
	add := func(path string, s ...gwsim.Step) {
		c.Paths = append(c.Paths, path)
		sc.Steps = append(sc.Steps, s...)
	}
	keepalive := uint16(rapid.SampledFrom([]int{0, 5, 60, 60, 60}).Draw(t, "keepalive"))
	will := rapid.IntRange(0, 3).Draw(t, "will") == 0
	if keepalive == 0 {
		add("keepalive0", gwgen.SN(gwgen.Connect("cl", 0, will, true)))
		keepalive = 60
	}
	if rapid.IntRange(0, 3).Draw(t, "refused_connect") == 0 {
		// CONNECTs which the gateway answers itself: every refusal path sends a CONNACK
		bad := gwgen.Connect("cl", 60, will, true)
		switch rapid.IntRange(0, 4).Draw(t, "refusal") {
		case 0:
			bad.ClientID = []byte("bad\xffid")
		case 1:
			bad.ClientID = []byte("nul\x00id")
		case 2:
			bad.ProtocolID = 2
		case 3:
			bad.ClientID = nil
		default:
			bad.ClientID = bytes.Repeat([]byte("x"), 30)
		}
		add("connect-refused", gwgen.SN(bad))
	}
	sc.Steps = append(sc.Steps, gwgen.SN(gwgen.Connect("cl", keepalive, will, true)))
	if sc.Cfg.Auth {
		if rapid.IntRange(0, 5).Draw(t, "badauth") == 0 {
			add("unknown-auth-method", gwgen.SN(snref.Pkt{Type: snref.AUTH, Method: "GSSAPI"}))
		}
		sc.Steps = append(sc.Steps, gwgen.SN(gwgen.AuthPlain("alice", []byte("secret"))))
	}
	if will {
		add("will", gwgen.SN(gwgen.WillTopic("w/t", 1, true)), gwgen.SN(gwgen.WillMsg([]byte("bye"))))
	}
	n := rapid.IntRange(1, 10).Draw(t, "nsteps")
	asleep := false
	for i := 0; i < n; i++ {
		mid := uint16(rapid.IntRange(1, 5).Draw(t, "mid"))
		switch rapid.SampledFrom([]string{"register", "subscribe", "bpub", "bpub", "bigpub", "bigpub", "cpub", "sleep", "wake", "reconnect", "ping", "adv", "unsub", "badpub"}).Draw(t, "kind") {
		case "register":
			add("regack", gwgen.SN(gwgen.Register(fmt.Sprintf("r/%d", i), mid)))
		case "subscribe":
			add("suback", gwgen.SN(gwgen.SubscribeName(rapid.SampledFrom([]string{"t/a", "t/#", "ab"}).Draw(t, "name"), byte(rapid.IntRange(0, 2).Draw(t, "qos")), mid)))
		case "unsub":
			add("unsuback", gwgen.SN(snref.Pkt{Type: snref.UNSUBSCRIBE, TIT: snref.TITNormal, TopicName: "t/a", MsgID: mid}))
		case "bpub":
			topic := rapid.SampledFrom([]string{"ab", "p/one", "p/two", "t/a", "new/x", "new/y"}).Draw(t, "topic")
			add("broker-publish", gwgen.MQ(gwgen.BPublish(topic, byte(rapid.IntRange(0, 2).Draw(t, "qos")), 100+mid, genPayload(t), rapid.Bool().Draw(t, "retain"), rapid.Bool().Draw(t, "dup"))))
		case "bigpub":
			topic := rapid.SampledFrom([]string{"ab", "p/one", "t/a", "new/big"}).Draw(t, "topic")
			if rapid.IntRange(0, 2).Draw(t, "long_name") == 0 {
				// a topic name which is legal in MQTT (up to 65535 octets) but does not fit a REGISTER
				n := rapid.SampledFrom([]int{8180, 8185, 8186, 8187, 8200, 65000, 65535}).Draw(t, "namelen")
				topic = "long/" + strings.Repeat("n", n-5)
				add("broker-publish-long-name", gwgen.MQ(gwgen.BPublish(topic, byte(rapid.IntRange(0, 2).Draw(t, "qos")), 100+mid, []byte("x"), false, false)))
				continue
			}
			add("broker-publish-big", gwgen.MQ(gwgen.BPublish(topic, byte(rapid.IntRange(0, 2).Draw(t, "qos")), 100+mid, genBigPayload(t), false, false)))
		case "cpub":
			add("puback", gwgen.SN(gwgen.Publish(snref.TITShort, snref.ShortID("ab"), byte(rapid.IntRange(0, 2).Draw(t, "qos")), mid, []byte("x"))))
		case "badpub":
			add("publish-unknown-id", gwgen.SN(gwgen.Publish(snref.TITNormal, 999, 1, mid, []byte("x"))))
		case "sleep":
			add("sleep", gwgen.SN(gwgen.Disconnect(uint16(rapid.SampledFrom([]int{1, 5, 120}).Draw(t, "sleepdur")))))
			asleep = true
		case "wake":
			p := "wake-when-awake"
			if asleep {
				p = "wake-flush"
			}
			add(p, gwgen.SN(gwgen.Pingreq("cl")))
		case "reconnect":
			add("connect-again", gwgen.SN(gwgen.Connect("cl", keepalive, false, true)))
			asleep = false
		case "ping":
			add("pingresp", gwgen.SN(gwgen.Pingreq("")))
		case "adv":
			add("retransmission", gwgen.Adv(int64(rapid.SampledFrom([]int{500, 1100, 2500}).Draw(t, "advms"))))
		}
	}
	switch rapid.IntRange(0, 3).Draw(t, "end") {
	case 0:
		add("shutdown-disconnect", gwgen.Cancel())
	case 1:
		add("disconnect-reply", gwgen.SN(gwgen.Disconnect(0)))
	case 2:
		add("broker-close", gwgen.MQClose())
	}
	sc.TailMs = 200
	return c
}

func TestC23GW(t *testing.T) {
	vf.Check(t, vf.Prop[wfCase]{
		ID: "C23", Name: "gateway-datagrams-wellformed", Bubble: true,
		Rule: "session histories biased to rarely taken send paths: zero keep-alive CONNECT, unknown AUTH method, will prompting, refused and failed connects, REGACK/SUBACK incl. exhaustion of a scaled-down ID space, broker publishes on every topic form and QoS with payloads 0..70000 octets (crossing 8192 and the uint16 wrap at 65531) and with topic names of 8180..65535 octets (a REGISTER for them would not fit), retransmissions, sleep / wake-up flush / CONNECT while awake, shutdown DISCONNECT. Non-trivial = a history that sends at least one datagram from a path other than the plain connect/publish/subscribe happy path; distinct by script.",
		Assumptions: []string{"well-formed = decodes with the reference decoder, its type is one a gateway sends (spec 5.4), its length field equals its size and the one-octet form is used iff size <= 255, size <= 8192 (MaxPacketLen)"},
		Gen:         genWellFormedGW,
		Run: func(c wfCase) (r vf.Result) {
			tr := gwsim.Run(c.Script)
			rare := 0
			for _, p := range c.Paths {
				r.Label("path=" + p)
				switch p {
				case "regack", "suback", "puback", "broker-publish", "pingresp":
				default:
					rare++
				}
			}
			r.NonTrivial = rare > 0
			checkDatagrams(tr.Events, gwsim.GC, "gateway", snref.GatewayMaySend, &r, tr)
			return
		},
	})
}

func lastStepKind(tr *gwsim.Trace, sc *gwsim.Script, step int) string {
	return ""
}

// checkDatagrams applies the C23 judgement to every datagram of direction dir.
func checkDatagrams(evs []gwsim.Event, dir, who string, maySend func(byte) bool, r *vf.Result, tr *gwsim.Trace) {
	for _, e := range evs {
		if e.Dir != dir {
			continue
		}
		b := e.Raw
		ctx := ""
		if tr != nil {
			ctx = "\n" + tr.Dump(20)
		}
		if len(b) > 8192 {
			r.Fail(fmt.Sprintf("%s-datagram-oversize/%s", who, sizeClass(len(b))), "%s sent a datagram of %d octets (transport maximum 8192): % x...%s", who, len(b), b[:12], ctx)
			continue
		}
		p, h, err := snref.Decode(b, true)
		if err != nil {
			tn := "?"
			if h2, herr := snref.ParseHeader(b); herr == nil {
				tn = snref.TypeName(h2.Type)
			}
			_ = h
			r.Fail(fmt.Sprintf("%s-datagram-malformed/type=%s", who, tn), "%s sent % x: %v%s", who, head48(b), err, ctx)
			continue
		}
		if !maySend(p.Type) {
			r.Fail(fmt.Sprintf("%s-datagram-wrong-direction/%s", who, snref.TypeName(p.Type)), "%s sent a %s, which is not a packet a %s sends%s", who, snref.TypeName(p.Type), who, ctx)
		}
		if (p.Type == snref.PUBLISH || p.Type == snref.SUBSCRIBE || p.Type == snref.UNSUBSCRIBE) && p.TIT == 3 {
			r.Fail(fmt.Sprintf("%s-datagram-reserved-tit/%s", who, snref.TypeName(p.Type)), "%s sent %v with the reserved topic-ID type%s", who, p, ctx)
		}
	}
}

func sizeClass(n int) string {
	switch {
	case n > 65535:
		return "over-65535"
	default:
		return "8193-65535"
	}
}

func head48(b []byte) []byte {
	if len(b) > 48 {
		return b[:48]
	}
	return b
}

// ---- C24: every MQTT packet sent to the broker is valid MQTT 3.1.1 ---------------------------

type c24Case struct {
	Improper []string     `json:"improper"`
	Script   gwsim.Script `json:"script"`
}

var badNames = []string{"a/+", "#", "a/#/b", "a+b", "sport#", "nul\x00name", "bad\xffutf8", "\xed\xa0\x80", "+", ""}

func genC24(t *rapid.T) c24Case {
	c := c24Case{}
	sc := &c.Script
	sc.Cfg = gwgen.Cfg(t)
	sc.Cfg.RetryDelayMs = 10000
	sc.Cfg.Predef = map[string]map[uint16]string{"*": {1: "p/one", 2: "p/+/wild", 3: ""}}
	sc.Auto = gwsim.Auto{Connack: gwgen.U8(0), BrokerAcks: true, ClientRegack: true, ClientAcks: true, BrokerPubrel: true, Suback: "grant"}
	maybeEager(t, sc)
	imp := func(s string) { c.Improper = append(c.Improper, s) }
	add := func(s ...gwsim.Step) { sc.Steps = append(sc.Steps, s...) }
	// connect exchange, possibly improper
	cid := "cl"
	switch rapid.IntRange(0, 7).Draw(t, "cidkind") {
	case 0:
		cid = "bad\xffid"
		imp("clientid-invalid-utf8")
	case 1:
		cid = "nul\x00id"
		imp("clientid-nul")
	}
	will := rapid.IntRange(0, 2).Draw(t, "will") == 0
	add(gwgen.SN(gwgen.Connect(cid, 60, will, rapid.Bool().Draw(t, "clean"))))
	if sc.Cfg.Auth {
		user := "alice"
		if rapid.IntRange(0, 5).Draw(t, "baduser") == 0 {
			user = "al\xffice"
			imp("user-invalid-utf8")
		}
		add(gwgen.SN(gwgen.AuthPlain(user, []byte("secret"))))
	}
	if will {
		wt := gwgen.WillTopic("w/t", byte(rapid.IntRange(0, 2).Draw(t, "wqos")), rapid.Bool().Draw(t, "wretain"))
		switch rapid.IntRange(0, 5).Draw(t, "willkind") {
		case 0:
			wt = gwgen.WillTopic("", 0, false)
			imp("will-topic-empty")
		case 1:
			wt.QoS = 3
			imp("will-qos3")
		case 2:
			wt.TopicName = rapid.SampledFrom(badNames[:9]).Draw(t, "badwill")
			imp("will-topic-bad")
		}
		add(gwgen.SN(wt), gwgen.SN(gwgen.WillMsg([]byte("bye"))))
	}
	n := rapid.IntRange(1, 8).Draw(t, "nsteps")
	regd := 0
	for i := 0; i < n; i++ {
		mid := uint16(rapid.IntRange(1, 5).Draw(t, "mid"))
		switch rapid.SampledFrom([]string{"pub-tit3", "pub-mid0", "pub-dup-qos0", "sub-qos3", "sub-badfilter", "sub-mid0", "unsub-bad", "reg-bad", "pub-predef-bad", "pub-short-bad", "pub-cross", "pub-cross", "sub-cross", "sub-cross", "proper", "proper"}).Draw(t, "kind") {
		case "pub-cross":
			// the full cross product: topic form x QoS code (3 = QoS -1) x message ID (0 too) x DUP
			p := snref.Pkt{Type: snref.PUBLISH, QoS: byte(rapid.IntRange(0, 3).Draw(t, "xqos")), MsgID: uint16(rapid.SampledFrom([]int{0, 0, 3, 9}).Draw(t, "xmid")),
				DUP: rapid.IntRange(0, 3).Draw(t, "xdup") == 0, Retain: rapid.Bool().Draw(t, "xretain"), Data: []byte("x")}
			switch rapid.IntRange(0, 2).Draw(t, "xform") {
			case 0:
				add(gwgen.SN(gwgen.Register("t/ok", mid))) // gets the first free ID (4) unless taken
				p.TIT, p.TopicID = snref.TITNormal, uint16(rapid.SampledFrom([]int{4, 4, 5}).Draw(t, "xtid"))
			case 1:
				p.TIT, p.TopicID = snref.TITPredefined, 1
			default:
				p.TIT, p.TopicID = snref.TITShort, snref.ShortID("ab")
			}
			if p.QoS == 3 || (p.MsgID == 0 && (p.QoS == 1 || p.QoS == 2)) || (p.DUP && (p.QoS == 0 || p.QoS == 3)) {
				imp("publish-cross-improper")
			}
			add(gwgen.SN(p))
		case "sub-cross":
			p := snref.Pkt{Type: rapid.SampledFrom([]byte{snref.SUBSCRIBE, snref.SUBSCRIBE, snref.UNSUBSCRIBE}).Draw(t, "xsubtype"), QoS: byte(rapid.IntRange(0, 3).Draw(t, "xqos")),
				MsgID: uint16(rapid.SampledFrom([]int{0, 3, 9}).Draw(t, "xmid")), DUP: rapid.IntRange(0, 3).Draw(t, "xdup") == 0}
			switch rapid.IntRange(0, 2).Draw(t, "xform") {
			case 0:
				p.TIT, p.TopicName = snref.TITNormal, rapid.SampledFrom([]string{"t/a", "t/+", "#"}).Draw(t, "xfilter")
			case 1:
				p.TIT, p.TopicID = snref.TITPredefined, uint16(rapid.SampledFrom([]int{1, 2, 3}).Draw(t, "xpid"))
			default:
				p.TIT, p.TopicID = snref.TITShort, snref.ShortID(rapid.SampledFrom([]string{"ab", "a+", "#/"}).Draw(t, "xshort"))
			}
			if p.Type == snref.UNSUBSCRIBE {
				p.QoS = 0
			}
			if p.QoS == 3 || p.MsgID == 0 {
				imp("subscribe-cross-improper")
			}
			add(gwgen.SN(p))
		case "pub-tit3":
			imp("publish-tit3")
			add(gwgen.SN(gwgen.Publish(3, uint16(rapid.IntRange(0, 3).Draw(t, "tid")), byte(rapid.IntRange(0, 3).Draw(t, "qos")), mid, []byte("x"))))
		case "pub-mid0":
			imp("publish-mid0")
			add(gwgen.SN(gwgen.Publish(snref.TITShort, snref.ShortID("ab"), byte(rapid.IntRange(1, 2).Draw(t, "qos")), 0, []byte("x"))))
		case "pub-dup-qos0":
			imp("publish-dup-qos0")
			p := gwgen.Publish(snref.TITShort, snref.ShortID("ab"), byte(rapid.SampledFrom([]int{0, 3}).Draw(t, "qos")), mid, []byte("x"))
			p.DUP = true
			add(gwgen.SN(p))
		case "sub-qos3":
			imp("subscribe-qos3")
			add(gwgen.SN(gwgen.SubscribeName("t/a", 3, mid)))
		case "sub-badfilter":
			imp("subscribe-bad-filter")
			add(gwgen.SN(gwgen.SubscribeName(rapid.SampledFrom([]string{"a/#/b", "a+b", "sport#", "nul\x00name", "bad\xffutf8", "#/"}).Draw(t, "filter"), 1, mid)))
		case "sub-mid0":
			imp("subscribe-mid0")
			add(gwgen.SN(gwgen.SubscribeName("t/a", 1, 0)))
		case "unsub-bad":
			imp("unsubscribe-bad")
			add(gwgen.SN(snref.Pkt{Type: snref.UNSUBSCRIBE, TIT: snref.TITNormal, TopicName: rapid.SampledFrom([]string{"a/#/b", "a+b", "nul\x00name", "bad\xffutf8"}).Draw(t, "filter"), MsgID: uint16(rapid.SampledFrom([]int{0, 1}).Draw(t, "umid"))}))
		case "reg-bad":
			imp("register-bad-name-then-publish")
			name := rapid.SampledFrom(badNames[:9]).Draw(t, "badname")
			regd++
			add(gwgen.SN(gwgen.Register(name, mid)))
			// publish on whatever ID the gateway may have handed out for it (IDs start after the predefined ones)
			for _, tid := range []uint16{4, 5, 6} {
				if rapid.Bool().Draw(t, "pubonit") {
					add(gwgen.SN(gwgen.Publish(snref.TITNormal, tid, 0, mid, []byte("x"))))
				}
			}
		case "pub-predef-bad":
			imp("publish-predefined-bad-name")
			add(gwgen.SN(gwgen.Publish(snref.TITPredefined, uint16(rapid.SampledFrom([]int{2, 3}).Draw(t, "pid")), 0, mid, []byte("x"))))
		case "pub-short-bad":
			imp("publish-short-bad-name")
			add(gwgen.SN(gwgen.Publish(snref.TITShort, snref.ShortID(rapid.SampledFrom([]string{"a+", "#/", "\x00a", "\xff\xfe", "+/"}).Draw(t, "short")), 0, mid, []byte("x"))))
		default:
			switch rapid.IntRange(0, 2).Draw(t, "properkind") {
			case 0:
				add(gwgen.SN(gwgen.SubscribeName("t/+", 1, mid)))
			case 1:
				add(gwgen.SN(gwgen.Publish(snref.TITPredefined, 1, 1, mid, []byte("ok"))))
			default:
				add(gwgen.SN(gwgen.Register("t/ok", mid)))
			}
		}
	}
	sc.TailMs = 100
	return c
}

func TestC24(t *testing.T) {
	vf.Check(t, vf.Prop[c24Case]{
		ID: "C24", Name: "mqtt-valid", Bubble: true,
		Rule: "session histories made of decodable but improper client input mixed with proper traffic: PUBLISH with topic-ID type 3, message ID 0 at QoS 1/2, DUP with QoS 0/-1, and the cross product topic form (registered, predefined, short) x QoS code 0-3 x message ID (0 too) x DUP x retain; SUBSCRIBE and UNSUBSCRIBE over the same cross product; SUBSCRIBE with QoS 3, message ID 0, malformed-wildcard / NUL / invalid-UTF-8 filters; UNSUBSCRIBE likewise; REGISTER of names containing wildcards, NUL or invalid UTF-8 followed by PUBLISH on the returned ID; predefined and short topics with such names; Will flag with empty WILLTOPIC, will QoS 3, bad will topics; client IDs and user names with arbitrary bytes. Non-trivial = a history with at least one improper input that the gateway did not reject at decode time; distinct by script.",
		Assumptions: []string{"judged per packet against MQTT 3.1.1 normative statements only (each violation kind names its clause)", "second CONNECTs on one connection and QoS -1 PUBLISH before CONNECT are deliberate project behaviours and are not judged"},
		Gen:         genC24,
		Run: func(c c24Case) (r vf.Result) {
			tr := gwsim.Run(c.Script)
			for _, s := range c.Improper {
				r.Label("improper=" + s)
			}
			r.NonTrivial = len(c.Improper) > 0
			checkMQTTValid(tr, &r)
			return
		},
	})
}

func checkMQTTValid(tr *gwsim.Trace, r *vf.Result) {
	if tr.BrokerParseErr != "" {
		r.Fail("broker-stream-unparseable", "the byte stream to the broker stopped being MQTT: %s\n%s", tr.BrokerParseErr, tr.Dump(20))
	}
	for _, e := range tr.Events {
		if e.Dir != gwsim.GB || e.MQ == nil {
			continue
		}
		for _, is := range mqttref.ValidateFromClient(*e.MQ) {
			what := mqttref.TypeName(e.MQ.Type)
			r.Fail(fmt.Sprintf("invalid-mqtt/%s/%s", what, is.Clause), "%s: %s  [%s]\n%s", what, is.Msg, is.Clause, tr.Dump(20))
		}
	}
	_ = strings.Join
}
