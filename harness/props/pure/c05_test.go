package pure

import (
	"fmt"
	"testing"

	"pgregory.net/rapid"

	"github.com/energomonitor/bisquitt/topics"

	"verif/harness/vf"
)

// ---- C05: predefined topic lookups are mutually consistent ------------------------------------

type c05Case struct {
	Map     map[string]map[uint16]string `json:"map"`
	Clients []string                     `json:"clients"`
	IDs     []uint16                     `json:"ids"`
	Names   []string                     `json:"names"`
}

func refName(m map[string]map[uint16]string, client string, id uint16) (string, bool) {
	if e, ok := m[client]; ok {
		if n, ok := e[id]; ok {
			return n, true
		}
	}
	if e, ok := m["*"]; ok {
		if n, ok := e[id]; ok {
			return n, true
		}
	}
	return "", false
}

func runC05(c c05Case) (r vf.Result) {
	pt := topics.PredefinedTopics{}
	for cl, e := range c.Map {
		for id, n := range e {
			pt.Add(cl, n, id)
		}
	}
	shadow := false
	for cl, e := range c.Map {
		if cl == "*" {
			continue
		}
		for id, n := range e {
			if sn, ok := c.Map["*"][id]; ok && sn != n {
				shadow = true
			}
		}
	}
	r.NonTrivial = shadow
	for _, cl := range c.Clients {
		for _, id := range c.IDs {
			gn, gok := pt.GetTopicName(cl, id)
			wn, wok := refName(c.Map, cl, id)
			if gok != wok || gn != wn {
				r.Fail("name-lookup-differs-from-reference", "GetTopicName(%q, %d) = (%q, %v), reference (client entry, else \"*\" entry) gives (%q, %v); map %v", cl, id, gn, gok, wn, wok, c.Map)
				return
			}
		}
		for _, n := range c.Names {
			// the lookup iterates a Go map: repeat to see different orders
			for k := 0; k < 6; k++ {
				id, ok := pt.GetTopicID(cl, n)
				if !ok {
					// completeness is measured, not asserted
					for _, i := range c.IDs {
						if rn, rok := refName(c.Map, cl, i); rok && rn == n {
							vf.Count("c05_id_lookup_incomplete", 1)
							break
						}
					}
					break
				}
				back, bok := pt.GetTopicName(cl, id)
				if !bok || back != n {
					kind := "id-does-not-map-back"
					if sn, sok := c.Map["*"][id]; sok && sn == n {
						kind += "/shadowed-star-entry"
					}
					r.Fail(kind, "GetTopicID(%q, %q) = %d, but GetTopicName(%q, %d) = (%q, %v); map %v", cl, n, id, cl, id, back, bok, c.Map)
					return
				}
			}
		}
	}
	return
}

func TestC05(t *testing.T) {
	names := []string{"x", "y"}
	vf.Check(t, vf.Prop[c05Case]{
		ID: "C05", Name: "predefined-lookups",
		Rule: "exhaustive: clients {'*', a} x IDs {1,2} x names {x, y, the empty name, absent}: all 256 maps, each queried for clients {'*', a, b}, IDs {1,2,3} and names {x,y,z,empty}; random: maps over clients {'*', a, b, c}, IDs {0,1..6,0xFFFF}, 5 names and the empty name, 0-5 entries per client, queried for all clients incl. one absent from the map. GetTopicID is repeated 6 times per query (it iterates a Go map). Non-trivial = a map in which some ID is defined for both a client and '*' with different names; distinct by map.",
		Assumptions: []string{"completeness of GetTopicID (finding an ID whenever one exists) is counted (extra.c05_id_lookup_incomplete) but not asserted: the property does not claim it"},
		Exhaustive: func(tier string, yield func(c05Case)) {
			// "-" = no entry; the empty name is a legal entry (the YAML loader and the option parser accept it)
			opts := []string{"-", "x", "y", ""}
			for a := 0; a < 256; a++ {
				m := map[string]map[uint16]string{}
				v := a
				for _, slot := range []struct {
					cl string
					id uint16
				}{{"*", 1}, {"*", 2}, {"a", 1}, {"a", 2}} {
					n := opts[v%4]
					v /= 4
					if n != "-" {
						if m[slot.cl] == nil {
							m[slot.cl] = map[uint16]string{}
						}
						m[slot.cl][slot.id] = n
					}
				}
				yield(c05Case{Map: m, Clients: []string{"*", "a", "b"}, IDs: []uint16{1, 2, 3}, Names: []string{"x", "y", "z", ""}})
			}
			// the repository's own example configuration
			yield(c05Case{Map: map[string]map[uint16]string{"client1": {1: "device/000001/data", 2: "device/000001/config"},
				"*": {1: "device/any/data", 2: "device/any/config", 3: "device/any/bcast"}},
				Clients: []string{"client1", "client2", "*"}, IDs: []uint16{1, 2, 3, 4},
				Names: []string{"device/000001/data", "device/000001/config", "device/any/data", "device/any/config", "device/any/bcast"}})
		},
		Gen: func(t *rapid.T) c05Case {
			pool := []string{"n1", "n2", "n3", "n4", "n5", ""}
			ids := []uint16{0, 1, 2, 3, 4, 5, 6, 0xffff}
			m := map[string]map[uint16]string{}
			for _, cl := range []string{"*", "a", "b", "c"} {
				n := rapid.IntRange(0, 5).Draw(t, "n")
				for i := 0; i < n; i++ {
					if m[cl] == nil {
						m[cl] = map[uint16]string{}
					}
					m[cl][rapid.SampledFrom(ids).Draw(t, "id")] = rapid.SampledFrom(pool).Draw(t, "name")
				}
			}
			return c05Case{Map: m, Clients: []string{"*", "a", "b", "c", "zz"}, IDs: ids, Names: pool}
		},
		Run: runC05,
	})
	_ = names
	_ = fmt.Sprint
}
