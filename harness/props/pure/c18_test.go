package pure

import (
	"context"
	"errors"
	"fmt"
	"sync"
	"sync/atomic"
	"testing"
	"testing/synctest"
	"time"

	"pgregory.net/rapid"

	"github.com/energomonitor/bisquitt/transactions"

	"verif/harness/vf"
)

// ---- C18: a finished transaction stays finished ---------------------------------------------------

type c18Op struct {
	Op string `json:"op"` // Proceed Success Fail Cancel
}

type c18Instant struct {
	AtNs int64   `json:"at_ns"` // virtual time (from the start) at which these operations are released together
	Ops  []c18Op `json:"ops"`   // each runs on its own goroutine, no barrier between them
}

type c18Case struct {
	Kind     string       `json:"kind"` // retry, timed
	DelayNs  int64        `json:"delay_ns"`
	Count    uint         `json:"count"`
	CbFails  bool         `json:"cb_fails"` // the retry callback returns an error
	Instants []c18Instant `json:"steps"`
}

func genC18(t *rapid.T) c18Case {
	c := c18Case{Kind: rapid.SampledFrom([]string{"retry", "retry", "timed"}).Draw(t, "kind"),
		DelayNs: rapid.SampledFrom([]int64{0, 1, 1e6, 1e9}).Draw(t, "delay"), Count: uint(rapid.IntRange(0, 3).Draw(t, "count")),
		CbFails: rapid.IntRange(0, 3).Draw(t, "cbfails") == 0}
	d := c.DelayNs
	times := []int64{0, 0, d - 1, d, d, d + 1, 2 * d, 2*d + 1, int64(c.Count+1) * d, int64(c.Count+1)*d + 1, int64(c.Count+2) * d}
	n := rapid.IntRange(1, 5).Draw(t, "ninstants")
	at := int64(0)
	for i := 0; i < n; i++ {
		step := rapid.SampledFrom(times).Draw(t, "at")
		if step < 0 {
			step = 0
		}
		if i > 0 {
			at += step
		}
		in := c18Instant{AtNs: at}
		k := rapid.IntRange(1, 3).Draw(t, "nops")
		for j := 0; j < k; j++ {
			ops := []string{"Success", "Fail", "Cancel", "Fail", "Success"}
			if c.Kind == "retry" {
				ops = append(ops, "Proceed", "Proceed")
			}
			in.Ops = append(in.Ops, c18Op{Op: rapid.SampledFrom(ops).Draw(t, "op")})
		}
		c.Instants = append(c.Instants, in)
	}
	return c
}

var errC18 = errors.New("failure reported by the caller")
var errCb = errors.New("retry callback failed")

func runC18(c c18Case) (r vf.Result) {
	start := time.Now()
	now := func() int64 { return int64(time.Since(start)) }
	ctx, cancel := context.WithCancel(context.Background())
	defer cancel()
	var finallyN int32
	var mu sync.Mutex
	var cbAt []int64
	var opPanics []string
	var tr transactions.Transaction
	var rt *transactions.RetryTransaction
	// "after its Done channel closes, its completion callback has run": seen from inside the callback,
	// Done must still be open (the channel is handed over once the constructor has returned; a timer
	// which fires before that is not judged)
	var doneCh atomic.Value
	var doneInFinally int32
	finally := func() {
		if ch, ok := doneCh.Load().(<-chan struct{}); ok {
			select {
			case <-ch:
				atomic.AddInt32(&doneInFinally, 1)
			default:
			}
		}
		atomic.AddInt32(&finallyN, 1)
	}
	if c.Kind == "retry" {
		rt = transactions.NewRetryTransaction(ctx, time.Duration(c.DelayNs), c.Count, func(interface{}) error {
			mu.Lock()
			cbAt = append(cbAt, now())
			mu.Unlock()
			if c.CbFails {
				return errCb
			}
			return nil
		}, finally)
		tr = rt
		doneCh.Store(tr.Done())
		rt.Proceed(0, "data") // starts the retry timer
	} else {
		tr = transactions.NewTimedTransaction(ctx, time.Duration(c.DelayNs), finally)
		doneCh.Store(tr.Done())
	}
	doneSeenAt := int64(-1)
	var firstErr error
	desc := fmt.Sprintf("%s delay=%v count=%d cbFails=%v steps=%+v", c.Kind, time.Duration(c.DelayNs), c.Count, c.CbFails, c.Instants)
	observe := func() bool {
		select {
		case <-tr.Done():
		default:
			return true
		}
		e := tr.Err()
		if doneSeenAt < 0 {
			doneSeenAt, firstErr = now(), e
			return true
		}
		if e != firstErr {
			r.Fail("err-changes-after-done", "%s: Err() was %v when Done closed and is %v later", desc, firstErr, e)
			return false
		}
		return true
	}
	same := 0
	for _, in := range c.Instants {
		if d := in.AtNs - now(); d > 0 {
			time.Sleep(time.Duration(d))
		}
		// everything that is due at this instant (timers included) runs concurrently with the operations
		var wg sync.WaitGroup
		gate := make(chan struct{})
		kinds := map[string]bool{}
		for _, op := range in.Ops {
			kinds[op.Op] = true
			wg.Add(1)
			go func(op c18Op) {
				defer wg.Done()
				defer func() {
					if p := recover(); p != nil {
						mu.Lock()
						opPanics = append(opPanics, fmt.Sprintf("%s: %v", op.Op, p))
						mu.Unlock()
					}
				}()
				<-gate
				switch op.Op {
				case "Proceed":
					rt.Proceed(1, "data")
				case "Success":
					tr.Success()
				case "Fail":
					tr.Fail(errC18)
				case "Cancel":
					cancel()
				}
			}(op)
		}
		close(gate)
		wg.Wait()
		synctest.Wait()
		if len(kinds) >= 2 || len(in.Ops) >= 2 || c.DelayNs <= 1 || (c.DelayNs > 0 && in.AtNs%c.DelayNs == 0 && in.AtNs > 0) {
			same++
		}
		if !observe() {
			return
		}
	}
	// let every timer that may still be pending fire
	time.Sleep(time.Duration(10*int64(c.Count+2)*c.DelayNs) + time.Second)
	synctest.Wait()
	if !observe() {
		return
	}
	r.NonTrivial = same > 0
	r.Label("kind=" + c.Kind)
	if len(opPanics) > 0 {
		r.Fail("panic-in-transaction-call", "%s: %v", desc, opPanics)
		return
	}
	if atomic.LoadInt32(&doneInFinally) > 0 {
		r.Fail("done-closed-before-completion-callback", "%s: the completion callback found Done closed already: whoever waits for Done runs before the callback has (e.g. before the transaction has left the store)", desc)
		return
	}
	if n := atomic.LoadInt32(&finallyN); doneSeenAt >= 0 && n != 1 {
		r.Fail(fmt.Sprintf("completion-callback-runs=%d", min(int(n), 3)), "%s: the transaction completed but its completion callback ran %d times", desc, n)
		return
	}
	if doneSeenAt < 0 && atomic.LoadInt32(&finallyN) != 0 {
		r.Fail("completion-callback-without-done", "%s: completion callback ran %d times but Done never closed", desc, finallyN)
		return
	}
	if doneSeenAt >= 0 {
		mu.Lock()
		defer mu.Unlock()
		for _, at := range cbAt {
			if at > doneSeenAt {
				r.Fail("retry-after-done", "%s: Done was observed closed at %d ns, the retry callback ran again at %d ns", desc, doneSeenAt, at)
				return
			}
		}
	}
	return
}

func TestC18(t *testing.T) {
	vf.Check(t, vf.Prop[c18Case]{
		ID: "C18", Name: "finished-stays-finished", Bubble: true, MarkCurrent: true,
		Rule: "retry and timed transactions (race-detector build, virtual clock) with delays {0, 1 ns, 1 ms, 1 s}, RetryCount 0-3, a retry callback that succeeds or returns an error, and 1-5 instants at which 1-3 operations out of {Proceed, Success, Fail, cancel the context} are released together on separate goroutines without a barrier; the instants are drawn from {0, delay-1 ns, delay, delay+1 ns, k x delay} after the previous one, so acknowledgement, timer expiry and cancellation really coincide. Non-trivial = >= 2 operations within one instant, an instant on a timer expiry, or a zero/minimal delay; distinct by case.",
		Assumptions: []string{"oracle after the history and a final advance of 10 x (RetryCount+2) x delay: completion callback ran exactly once iff Done closed, and it found Done still open when it ran; Err() read at the first observation of Done equals every later Err(); no retry-callback invocation after a quiescent point at which Done was observed closed; no panic (a panic on a timer goroutine, like a race report, kills the process and the driver attributes it to the case written to disk beforehand)"},
		Gen:         genC18,
		Run:         runC18,
	})
}
