package pure

import (
	"context"
	"fmt"
	"sync"
	"sync/atomic"
	"testing"
	"testing/synctest"
	"time"

	"pgregory.net/rapid"

	"github.com/energomonitor/bisquitt/transactions"

	"verif/harness/vf"
)

// ---- C18, second part: the retry timer has fired, its function has not run yet --------------------
//
// time.Timer.Stop cannot take back a timer whose function is about to run. Which of the two - the
// timer's function or the acknowledgement - gets the transaction's lock first is the scheduler's
// choice; the first part leaves it to chance, this part owns it: the harness parks the timer's
// function at its entry (hook VerifHoldTimer: it takes the lock the function takes first), finishes
// the transaction at the very instant of the expiry, and only then lets the function run.

type c18Parked struct {
	DelayNs   int64   `json:"delay_ns"`
	Count     uint    `json:"count"`
	CbFails   bool    `json:"cb_fails"`
	Proceeds  []int64 `json:"proceeds,omitempty"` // Proceed calls before, each this long after the previous progress (< delay)
	Expiry    int     `json:"expiry"`             // the k-th expiry after the last progress is the one which is parked (1..Count+1)
	Op        string  `json:"op"`                 // Success, Fail
	Then      string  `json:"then,omitempty"`     // after the release, at the same instant: Proceed, Success, Fail or nothing
	ThenFirst bool    `json:"then_first,omitempty"`
}

func genC18Parked(t *rapid.T) c18Parked {
	c := c18Parked{DelayNs: rapid.SampledFrom([]int64{1, 2, 1e6, 1e9}).Draw(t, "delay"), Count: uint(rapid.IntRange(0, 3).Draw(t, "count")),
		CbFails: rapid.IntRange(0, 4).Draw(t, "cbfails") == 0, Op: rapid.SampledFrom([]string{"Success", "Fail"}).Draw(t, "op"),
		Then: rapid.SampledFrom([]string{"", "", "Proceed", "Success", "Fail"}).Draw(t, "then")}
	for i := rapid.IntRange(0, 2).Draw(t, "nproceeds"); i > 0; i-- {
		c.Proceeds = append(c.Proceeds, c.DelayNs*int64(rapid.IntRange(0, 3).Draw(t, "quarter"))/4)
	}
	c.Expiry = rapid.IntRange(1, int(c.Count)+1).Draw(t, "expiry")
	// the second operation may be started before the parked function is released (it races with it)
	c.ThenFirst = c.Then != "" && c.Then != "Proceed" && rapid.Bool().Draw(t, "then_first")
	return c
}

func runC18Parked(c c18Parked) (r vf.Result) {
	start := time.Now()
	now := func() int64 { return int64(time.Since(start)) }
	ctx, cancel := context.WithCancel(context.Background())
	defer cancel()
	var finallyN int32
	var mu sync.Mutex
	var cbAt []int64
	desc := fmt.Sprintf("%+v", c)
	rt := transactions.NewRetryTransaction(ctx, time.Duration(c.DelayNs), c.Count, func(interface{}) error {
		mu.Lock()
		cbAt = append(cbAt, now())
		mu.Unlock()
		if c.CbFails {
			return errCb
		}
		return nil
	}, func() { atomic.AddInt32(&finallyN, 1) })
	ncb := func() int { mu.Lock(); defer mu.Unlock(); return len(cbAt) }
	closed := func() bool {
		select {
		case <-rt.Done():
			return true
		default:
			return false
		}
	}
	rt.Proceed(0, "data")
	for i, d := range c.Proceeds {
		time.Sleep(time.Duration(d))
		synctest.Wait()
		rt.Proceed(i+1, "data")
	}
	progress := now()
	// let the expiries before the parked one happen
	if c.Expiry > 1 {
		time.Sleep(time.Duration(int64(c.Expiry-1) * c.DelayNs))
		synctest.Wait()
	}
	if closed() {
		return // the callback failed the transaction earlier: nothing to park
	}
	before := ncb()
	if before != c.Expiry-1 {
		r.Fail("harness-expiries", "%s: %d retry callbacks before the parked expiry, expected %d", desc, before, c.Expiry-1)
		return
	}
	release := rt.VerifHoldTimer()
	// exactly at the expiry: the timer fires, its function parks at its entry, and this goroutine
	// wakes up at the same instant
	time.Sleep(time.Duration(progress + int64(c.Expiry)*c.DelayNs - now()))
	op := func(name string) {
		switch name {
		case "Success":
			rt.Success()
		case "Fail":
			rt.Fail(errC18)
		case "Proceed":
			rt.Proceed(99, "data")
		}
	}
	op(c.Op)
	if !closed() {
		release()
		r.Fail("not-done-after-"+c.Op, "%s: Done is not closed after %s returned", desc, c.Op)
		return
	}
	err0 := rt.Err()
	var wg sync.WaitGroup
	if c.ThenFirst {
		wg.Add(1)
		go func() { defer wg.Done(); op(c.Then) }()
	}
	release()
	if c.Then != "" && !c.ThenFirst {
		op(c.Then)
	}
	wg.Wait()
	synctest.Wait()
	r.NonTrivial = true
	r.Label(fmt.Sprintf("parked-expiry=%d-of-%d", c.Expiry, c.Count+1))
	check := func(when string) bool {
		if n := ncb(); n != before {
			r.Fail("retry-after-done", "%s: %s returned and Done was closed while the timer's function waited at its entry; %s the retry callback had run %d more time(s)", desc, c.Op, when, n-before)
			return false
		}
		if e := rt.Err(); e != err0 {
			r.Fail("err-changes-after-done", "%s: Err() was %v when Done closed and is %v %s", desc, err0, e, when)
			return false
		}
		if n := atomic.LoadInt32(&finallyN); n != 1 {
			r.Fail(fmt.Sprintf("completion-callback-runs=%d", min(int(n), 3)), "%s: completion callback ran %d times (%s)", desc, n, when)
			return false
		}
		return true
	}
	if !check("at the same instant") {
		return
	}
	time.Sleep(time.Duration(10*int64(c.Count+2)*c.DelayNs) + time.Second)
	synctest.Wait()
	check("after every timer had time to fire")
	return
}

func TestC18Parked(t *testing.T) {
	vf.Check(t, vf.Prop[c18Parked]{
		ID: "C18", Name: "timer-fired-then-finished", Bubble: true, MarkCurrent: true,
		Rule: "retry transaction (delays 1 ns, 2 ns, 1 ms, 1 s; RetryCount 0-3; callback succeeds or fails; 0-2 earlier Proceed calls at quarter-delay offsets) whose k-th retry timer (k drawn from 1..RetryCount+1) has fired but whose function has not run yet: the harness parks the function at its entry (hook), calls Success or Fail at the very instant of the expiry, observes Done closed, releases the function, and optionally runs a second Proceed/Success/Fail at that instant (before or after the release). Every case in which the transaction is still open at the parked expiry is non-trivial; distinct by case.",
		Assumptions: []string{"oracle: once Done was observed closed no retry callback runs any more (the parked function had not entered the callback: the hook holds the lock it takes first), Err() never changes, the completion callback ran exactly once - at that instant and after 10 x (RetryCount+2) x delay more", "the hook adds no behaviour: it takes and releases the mutex which the timer's function and Proceed take first"},
		Gen:         genC18Parked,
		Run:         runC18Parked,
	})
}
