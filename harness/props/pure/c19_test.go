package pure

import (
	"context"
	"errors"
	"fmt"
	"sync"
	"testing"
	"testing/synctest"
	"time"

	"pgregory.net/rapid"

	"github.com/energomonitor/bisquitt/transactions"

	"verif/harness/vf"
)

// ---- C19: retry and timeout budgets are exact ---------------------------------------------------

type c19Case struct {
	Kind    string `json:"kind"` // retry, timed
	Count   uint   `json:"count"`
	DelayNs int64  `json:"delay_ns"`
	// Gaps between consecutive progress events (Proceed), in eighths of the delay; always odd, so
	// that no event coincides with a timer instant, and below (count+1) delays.
	Gaps []int `json:"gaps_eighths"`
	// Final: "success" or "fail" after FinalGap eighths, or "none" (let it run out).
	Final    string `json:"final"`
	FinalGap int    `json:"final_gap_eighths"`
}

func genC19(t *rapid.T) c19Case {
	c := c19Case{Kind: rapid.SampledFrom([]string{"retry", "retry", "timed"}).Draw(t, "kind"),
		Count:   uint(rapid.IntRange(0, 6).Draw(t, "count")),
		DelayNs: rapid.SampledFrom([]int64{1e6, 8e6, 1e9, 10e9, 60e9}).Draw(t, "delay")}
	odd := func(label string, max int) int { return rapid.IntRange(0, max-1).Draw(t, label)*2 + 1 }
	if c.Kind == "retry" {
		n := rapid.IntRange(0, 4).Draw(t, "nprogress")
		for i := 0; i < n; i++ {
			c.Gaps = append(c.Gaps, odd("gap", 4*(int(c.Count)+1)))
		}
		c.Final = rapid.SampledFrom([]string{"none", "success", "fail"}).Draw(t, "final")
		c.FinalGap = odd("finalgap", 4*(int(c.Count)+2))
	} else {
		c.Final = rapid.SampledFrom([]string{"none", "success", "fail"}).Draw(t, "final")
		c.FinalGap = odd("finalgap", 8)
	}
	return c
}

var errTest = errors.New("test failure")

func runC19(c c19Case) (r vf.Result) {
	start := time.Now()
	at := func() int64 { return int64(time.Since(start)) }
	d := c.DelayNs
	e8 := d / 8
	ctx, cancel := context.WithCancel(context.Background())
	defer cancel()
	var cbTimes []int64
	finallyN := 0
	var doneAt int64 = -1
	var tr transactions.Transaction
	watch := func() {
		go func() {
			<-tr.Done()
			doneAt = at()
		}()
	}
	var expectCb []int64
	var expectDone int64 = -1
	var expectErr error
	if c.Kind == "retry" {
		rt := transactions.NewRetryTransaction(ctx, time.Duration(d), c.Count, func(interface{}) error {
			cbTimes = append(cbTimes, at())
			return nil
		}, func() { finallyN++ })
		tr = rt
		watch()
		T := at()
		rt.Proceed(0, "data")
		addExpected := func(from, until int64) { // callbacks between a progress event and the next event
			for k := int64(1); k <= int64(c.Count); k++ {
				if from+k*d < until {
					expectCb = append(expectCb, from+k*d)
				}
			}
		}
		for i, g := range c.Gaps {
			time.Sleep(time.Duration(int64(g) * e8))
			synctest.Wait()
			now := at()
			addExpected(T, now)
			T = now
			rt.Proceed(i+1, "data")
		}
		if len(c.Gaps) > 0 && len(expectCb) > 0 {
			r.NonTrivial = true // progress after at least one retry
		}
		switch c.Final {
		case "none":
			addExpected(T, T+int64(c.Count+2)*d)
			expectDone, expectErr = T+int64(c.Count+1)*d, transactions.ErrNoMoreRetries
		default:
			fin := T + int64(c.FinalGap)*e8
			if fin > T+int64(c.Count+1)*d { // the budget runs out first
				addExpected(T, T+int64(c.Count+2)*d)
				expectDone, expectErr = T+int64(c.Count+1)*d, transactions.ErrNoMoreRetries
				r.Label("completion-after-budget")
			} else {
				addExpected(T, fin)
				expectDone = fin
				if c.Final == "fail" {
					expectErr = errTest
				}
			}
			time.Sleep(time.Duration(int64(c.FinalGap) * e8))
			synctest.Wait()
			if doneAt < 0 { // complete only a transaction that is still running (completing twice is C18's subject)
				if c.Final == "success" {
					rt.Success()
				} else {
					rt.Fail(errTest)
				}
			}
		}
	} else {
		tt := transactions.NewTimedTransaction(ctx, time.Duration(d), func() { finallyN++ })
		tr = tt
		watch()
		T := at()
		fin := T + int64(c.FinalGap)*e8
		if c.Final == "none" || fin > T+d {
			expectDone, expectErr = T+d, transactions.ErrTimeout
		} else {
			expectDone = fin
			if c.Final == "fail" {
				expectErr = errTest
			}
		}
		if c.Final != "none" {
			time.Sleep(time.Duration(int64(c.FinalGap) * e8))
			synctest.Wait()
			if doneAt < 0 {
				if c.Final == "success" {
					tt.Success()
				} else {
					tt.Fail(errTest)
				}
			}
		}
		r.NonTrivial = c.Final != "none"
	}
	time.Sleep(time.Duration(int64(c.Count+3) * d))
	synctest.Wait()
	r.Label("kind="+c.Kind, "final="+c.Final)
	desc := fmt.Sprintf("%s count=%d delay=%v gaps(1/8 delay)=%v final=%s@%d/8", c.Kind, c.Count, time.Duration(d), c.Gaps, c.Final, c.FinalGap)
	if fmt.Sprint(cbTimes) != fmt.Sprint(expectCb) {
		kind := "retry-callback-times"
		if len(cbTimes) > len(expectCb) {
			kind = "too-many-retries"
		} else if len(cbTimes) < len(expectCb) {
			kind = "too-few-retries"
		}
		r.Fail(kind, "%s: retry callback ran at %v ns, expected at %v ns", desc, cbTimes, expectCb)
		return
	}
	if doneAt != expectDone {
		r.Fail("completion-time", "%s: transaction finished at %d ns, expected at %d ns", desc, doneAt, expectDone)
		return
	}
	if got := tr.Err(); got != expectErr {
		r.Fail("completion-error", "%s: Err() = %v, expected %v", desc, got, expectErr)
		return
	}
	if finallyN != 1 {
		r.Fail("finally-count", "%s: completion callback ran %d times", desc, finallyN)
	}
	return
}

func TestC19(t *testing.T) {
	vf.Check(t, vf.Prop[c19Case]{
		ID: "C19", Name: "budgets-exact", Bubble: true,
		Rule: "retry transactions with RetryCount 0-6 and RetryDelay in {1 ms, 8 ms, 1 s, 10 s, 60 s}, 0-4 progress events (Proceed) at gaps of an odd number of eighths of the delay (so no event ever coincides with a timer instant; gaps stay below the budget), ended by Success, Fail or nothing at a drawn offset before or after the budget; timed transactions with the same delays completed before/after the timeout or never; one driver goroutine, virtual clock. The space (count 0-3, up to 1 progress event) is additionally enumerated. Non-trivial = a history with a progress event after at least one retry (retry) or a completion attempt (timed); distinct by case.",
		Assumptions: []string{"oracle is exact on virtual timestamps: callbacks at T+d..T+c*d after the last progress at T, 'no more retries' at T+(c+1)*d, 'timeout' at exactly the timeout; coincidences of events with timer instants are excluded by construction (they are C18's subject)"},
		Exhaustive: func(tier string, yield func(c19Case)) {
			for count := uint(0); count <= 3; count++ {
				for _, fin := range []string{"none", "success", "fail"} {
					for fg := 1; fg < 8*(int(count)+2); fg += 2 {
						yield(c19Case{Kind: "retry", Count: count, DelayNs: 1e9, Final: fin, FinalGap: fg})
						for g := 1; g < 8*(int(count)+1); g += 4 {
							yield(c19Case{Kind: "retry", Count: count, DelayNs: 1e9, Gaps: []int{g}, Final: fin, FinalGap: fg})
						}
						if fin == "none" {
							break
						}
					}
				}
			}
			for _, fin := range []string{"none", "success", "fail"} {
				for fg := 1; fg < 16; fg += 2 {
					yield(c19Case{Kind: "timed", DelayNs: 1e9, Final: fin, FinalGap: fg})
				}
			}
		},
		Gen: genC19,
		Run: runC19,
	})
}

// ---- C19, second part: progress at exactly a timer instant ---------------------------------------
//
// When Proceed is called at the very instant at which the retry timer expires, two orders are
// possible and both are fine: the timer first (one more retry of the *old* step, then the progress
// resets the budget) or the progress first (no retry at that instant). What the statement excludes is
// a retry of the *new* step at that instant: after progress the next retry is RetryDelay away.

type c19bCase struct {
	Count   uint  `json:"count"`
	DelayNs int64 `json:"delay_ns"`
	K       int   `json:"timer_instant"` // the progress comes at the K-th timer instant after the start
	N       int   `json:"transactions"`  // that many transactions do the same at once (the order is the scheduler's)
}

func runC19b(c c19bCase) (r vf.Result) {
	start := time.Now()
	at := func() int64 { return int64(time.Since(start)) }
	d := c.DelayNs
	ctx, cancel := context.WithCancel(context.Background())
	defer cancel()
	type cb struct {
		at   int64
		data int
	}
	type one struct {
		mu     sync.Mutex
		cbs    []cb
		doneAt int64
		rt     *transactions.RetryTransaction
	}
	txs := make([]*one, c.N)
	P := int64(c.K) * d
	var wg sync.WaitGroup
	for i := range txs {
		o := &one{doneAt: -1}
		txs[i] = o
		o.rt = transactions.NewRetryTransaction(ctx, time.Duration(d), c.Count, func(data interface{}) error {
			o.mu.Lock()
			o.cbs = append(o.cbs, cb{at(), data.(int)})
			o.mu.Unlock()
			return nil
		}, func() {})
		o.rt.Proceed(0, 0)
		go func() { <-o.rt.Done(); o.mu.Lock(); o.doneAt = at(); o.mu.Unlock() }()
		wg.Add(1)
		go func() {
			defer wg.Done()
			time.Sleep(time.Duration(P)) // wakes at the same instant as the K-th expiry of the retry timer
			o.rt.Proceed(1, 1)
		}()
	}
	wg.Wait()
	time.Sleep(time.Duration(int64(c.Count+3) * d))
	synctest.Wait()
	r.NonTrivial = true
	for i, o := range txs {
		o.mu.Lock()
		cbs, doneAt := o.cbs, o.doneAt
		o.mu.Unlock()
		desc := fmt.Sprintf("transaction %d of %d: count=%d delay=%v, Proceed at the %d. timer instant (%d ns)", i, c.N, c.Count, time.Duration(d), c.K, P)
		var atP, after []cb
		for _, x := range cbs {
			switch {
			case x.at < P:
				if x.data != 0 || x.at%d != 0 {
					r.Fail("retry-callback-times", "%s: retry %v before the progress", desc, x)
					return
				}
			case x.at == P:
				atP = append(atP, x)
			default:
				after = append(after, x)
			}
		}
		for _, x := range atP {
			if x.data == 1 {
				r.Fail("retry-at-the-instant-of-progress", "%s: the retry callback ran for the new step at the very instant of the progress (callbacks %v); after progress the next retry is one RetryDelay away", desc, cbs)
				return
			}
		}
		if len(atP) > 1 {
			r.Fail("too-many-retries", "%s: %d retries at one instant: %v", desc, len(atP), cbs)
			return
		}
		if len(atP) == 1 {
			r.Label("timer-first")
		} else {
			r.Label("progress-first")
		}
		for k, x := range after {
			if x.data != 1 || x.at != P+int64(k+1)*d {
				r.Fail("retry-callback-times", "%s: retries after the progress %v, expected the new step at %d ns + k x delay", desc, after, P)
				return
			}
		}
		if len(after) != int(c.Count) {
			r.Fail("retry-callback-times", "%s: %d retries after the progress, expected %d: %v", desc, len(after), c.Count, cbs)
			return
		}
		if want := P + int64(c.Count+1)*d; doneAt != want || o.rt.Err() != transactions.ErrNoMoreRetries {
			r.Fail("completion-time", "%s: finished at %d ns with %v, expected 'no more retries' at %d ns", desc, doneAt, o.rt.Err(), want)
			return
		}
	}
	return
}

func TestC19Coincide(t *testing.T) {
	vf.Check(t, vf.Prop[c19bCase]{
		ID: "C19", Name: "progress-at-timer-instant", Bubble: true,
		Rule: "1-16 retry transactions (RetryCount 1-4, RetryDelay 1 ms..10 s) each of which gets its progress event (Proceed) from its own goroutine at exactly the K-th expiry of its retry timer (K <= RetryCount), so that the timer goroutine and the progress run at the same virtual instant in the scheduler's order. Every case is non-trivial; distinct by case.",
		Assumptions: []string{"both orders are accepted: the timer first (one retry of the old step at that instant) or the progress first (none); a retry of the new step at that instant is a violation; afterwards retries of the new step exactly RetryDelay apart and 'no more retries' one RetryDelay after the last"},
		Gen: func(t *rapid.T) c19bCase {
			c := c19bCase{Count: uint(rapid.IntRange(1, 4).Draw(t, "count")), DelayNs: rapid.SampledFrom([]int64{1e6, 1e9, 10e9}).Draw(t, "delay"), N: rapid.SampledFrom([]int{1, 4, 16}).Draw(t, "n")}
			c.K = rapid.IntRange(1, int(c.Count)).Draw(t, "k")
			return c
		},
		Run: runC19b,
	})
}
