package pure

import (
	"context"
	"errors"
	"fmt"
	"testing"
	"testing/synctest"
	"time"

	"pgregory.net/rapid"

	"github.com/energomonitor/bisquitt/transactions"

	"verif/harness/vf"
)

// ---- C19: retry and timeout budgets are exact ---------------------------------------------------

type c19Case struct {
	Kind    string `json:"kind"` // retry, timed
	Count   uint   `json:"count"`
	DelayNs int64  `json:"delay_ns"`
	// Gaps between consecutive progress events (Proceed), in eighths of the delay; always odd, so
	// that no event coincides with a timer instant, and below (count+1) delays.
	Gaps []int `json:"gaps_eighths"`
	// Final: "success" or "fail" after FinalGap eighths, or "none" (let it run out).
	Final    string `json:"final"`
	FinalGap int    `json:"final_gap_eighths"`
}

func genC19(t *rapid.T) c19Case {
	c := c19Case{Kind: rapid.SampledFrom([]string{"retry", "retry", "timed"}).Draw(t, "kind"),
		Count:   uint(rapid.IntRange(0, 6).Draw(t, "count")),
		DelayNs: rapid.SampledFrom([]int64{1e6, 8e6, 1e9, 10e9, 60e9}).Draw(t, "delay")}
	odd := func(label string, max int) int { return rapid.IntRange(0, max-1).Draw(t, label)*2 + 1 }
	if c.Kind == "retry" {
		n := rapid.IntRange(0, 4).Draw(t, "nprogress")
		for i := 0; i < n; i++ {
			c.Gaps = append(c.Gaps, odd("gap", 4*(int(c.Count)+1)))
		}
		c.Final = rapid.SampledFrom([]string{"none", "success", "fail"}).Draw(t, "final")
		c.FinalGap = odd("finalgap", 4*(int(c.Count)+2))
	} else {
		c.Final = rapid.SampledFrom([]string{"none", "success", "fail"}).Draw(t, "final")
		c.FinalGap = odd("finalgap", 8)
	}
	return c
}

var errTest = errors.New("test failure")

func runC19(c c19Case) (r vf.Result) {
	start := time.Now()
	at := func() int64 { return int64(time.Since(start)) }
	d := c.DelayNs
	e8 := d / 8
	ctx, cancel := context.WithCancel(context.Background())
	defer cancel()
	var cbTimes []int64
	finallyN := 0
	var doneAt int64 = -1
	var tr transactions.Transaction
	watch := func() {
		go func() {
			<-tr.Done()
			doneAt = at()
		}()
	}
	var expectCb []int64
	var expectDone int64 = -1
	var expectErr error
	if c.Kind == "retry" {
		rt := transactions.NewRetryTransaction(ctx, time.Duration(d), c.Count, func(interface{}) error {
			cbTimes = append(cbTimes, at())
			return nil
		}, func() { finallyN++ })
		tr = rt
		watch()
		T := at()
		rt.Proceed(0, "data")
		addExpected := func(from, until int64) { // callbacks between a progress event and the next event
			for k := int64(1); k <= int64(c.Count); k++ {
				if from+k*d < until {
					expectCb = append(expectCb, from+k*d)
				}
			}
		}
		for i, g := range c.Gaps {
			time.Sleep(time.Duration(int64(g) * e8))
			synctest.Wait()
			now := at()
			addExpected(T, now)
			T = now
			rt.Proceed(i+1, "data")
		}
		if len(c.Gaps) > 0 && len(expectCb) > 0 {
			r.NonTrivial = true // progress after at least one retry
		}
		switch c.Final {
		case "none":
			addExpected(T, T+int64(c.Count+2)*d)
			expectDone, expectErr = T+int64(c.Count+1)*d, transactions.ErrNoMoreRetries
		default:
			fin := T + int64(c.FinalGap)*e8
			if fin > T+int64(c.Count+1)*d { // the budget runs out first
				addExpected(T, T+int64(c.Count+2)*d)
				expectDone, expectErr = T+int64(c.Count+1)*d, transactions.ErrNoMoreRetries
				r.Label("completion-after-budget")
			} else {
				addExpected(T, fin)
				expectDone = fin
				if c.Final == "fail" {
					expectErr = errTest
				}
			}
			time.Sleep(time.Duration(int64(c.FinalGap) * e8))
			synctest.Wait()
			if doneAt < 0 { // complete only a transaction that is still running (completing twice is C18's subject)
				if c.Final == "success" {
					rt.Success()
				} else {
					rt.Fail(errTest)
				}
			}
		}
	} else {
		tt := transactions.NewTimedTransaction(ctx, time.Duration(d), func() { finallyN++ })
		tr = tt
		watch()
		T := at()
		fin := T + int64(c.FinalGap)*e8
		if c.Final == "none" || fin > T+d {
			expectDone, expectErr = T+d, transactions.ErrTimeout
		} else {
			expectDone = fin
			if c.Final == "fail" {
				expectErr = errTest
			}
		}
		if c.Final != "none" {
			time.Sleep(time.Duration(int64(c.FinalGap) * e8))
			synctest.Wait()
			if doneAt < 0 {
				if c.Final == "success" {
					tt.Success()
				} else {
					tt.Fail(errTest)
				}
			}
		}
		r.NonTrivial = c.Final != "none"
	}
	time.Sleep(time.Duration(int64(c.Count+3) * d))
	synctest.Wait()
	r.Label("kind="+c.Kind, "final="+c.Final)
	desc := fmt.Sprintf("%s count=%d delay=%v gaps(1/8 delay)=%v final=%s@%d/8", c.Kind, c.Count, time.Duration(d), c.Gaps, c.Final, c.FinalGap)
	if fmt.Sprint(cbTimes) != fmt.Sprint(expectCb) {
		kind := "retry-callback-times"
		if len(cbTimes) > len(expectCb) {
			kind = "too-many-retries"
		} else if len(cbTimes) < len(expectCb) {
			kind = "too-few-retries"
		}
		r.Fail(kind, "%s: retry callback ran at %v ns, expected at %v ns", desc, cbTimes, expectCb)
		return
	}
	if doneAt != expectDone {
		r.Fail("completion-time", "%s: transaction finished at %d ns, expected at %d ns", desc, doneAt, expectDone)
		return
	}
	if got := tr.Err(); got != expectErr {
		r.Fail("completion-error", "%s: Err() = %v, expected %v", desc, got, expectErr)
		return
	}
	if finallyN != 1 {
		r.Fail("finally-count", "%s: completion callback ran %d times", desc, finallyN)
	}
	return
}

func TestC19(t *testing.T) {
	vf.Check(t, vf.Prop[c19Case]{
		ID: "C19", Name: "budgets-exact", Bubble: true,
		Rule: "retry transactions with RetryCount 0-6 and RetryDelay in {1 ms, 8 ms, 1 s, 10 s, 60 s}, 0-4 progress events (Proceed) at gaps of an odd number of eighths of the delay (so no event ever coincides with a timer instant; gaps stay below the budget), ended by Success, Fail or nothing at a drawn offset before or after the budget; timed transactions with the same delays completed before/after the timeout or never; one driver goroutine, virtual clock. The space (count 0-3, up to 1 progress event) is additionally enumerated. Non-trivial = a history with a progress event after at least one retry (retry) or a completion attempt (timed); distinct by case.",
		Assumptions: []string{"oracle is exact on virtual timestamps: callbacks at T+d..T+c*d after the last progress at T, 'no more retries' at T+(c+1)*d, 'timeout' at exactly the timeout; coincidences of events with timer instants are excluded by construction (they are C18's subject)"},
		Exhaustive: func(tier string, yield func(c19Case)) {
			for count := uint(0); count <= 3; count++ {
				for _, fin := range []string{"none", "success", "fail"} {
					for fg := 1; fg < 8*(int(count)+2); fg += 2 {
						yield(c19Case{Kind: "retry", Count: count, DelayNs: 1e9, Final: fin, FinalGap: fg})
						for g := 1; g < 8*(int(count)+1); g += 4 {
							yield(c19Case{Kind: "retry", Count: count, DelayNs: 1e9, Gaps: []int{g}, Final: fin, FinalGap: fg})
						}
						if fin == "none" {
							break
						}
					}
				}
			}
			for _, fin := range []string{"none", "success", "fail"} {
				for fg := 1; fg < 16; fg += 2 {
					yield(c19Case{Kind: "timed", DelayNs: 1e9, Final: fin, FinalGap: fg})
				}
			}
		},
		Gen: genC19,
		Run: runC19,
	})
}
