package pure

import (
	"fmt"
	"sync"
	"sync/atomic"
	"testing"
	"time"

	"github.com/anishathalye/porcupine"
	"pgregory.net/rapid"

	pkts "github.com/energomonitor/bisquitt/packets"
	"github.com/energomonitor/bisquitt/transactions"
	"github.com/energomonitor/bisquitt/util"

	"verif/harness/vf"
)

// ---- C29: ID sequence and transaction store behave atomically -----------------------------------

type seqCase struct {
	Min        uint16 `json:"min"`
	Max        uint16 `json:"max"`
	Goroutines int    `json:"goroutines"` // 1 = sequential
	Calls      int    `json:"calls_per_goroutine"`
}

// model of the documented sequence: min..max in order, wrap to min, overflow
// exactly on the first value after a wrap.
type seqModel struct {
	min, max, next uint16
	wrapped        bool
}

func (m *seqModel) nextVal() (uint16, bool) {
	id, ov := m.next, m.wrapped
	m.wrapped = false
	if m.next == m.max {
		m.next, m.wrapped = m.min, true
	} else {
		m.next++
	}
	return id, ov
}

type seqResult struct {
	id uint16
	ov bool
}

func runSeq(c seqCase) (r vf.Result) {
	s := util.NewIDSequence(c.Min, c.Max)
	m := &seqModel{min: c.Min, max: c.Max, next: c.Min}
	total := c.Goroutines * c.Calls
	rangeLen := int(c.Max) - int(c.Min) + 1
	r.NonTrivial = total > rangeLen // crosses a wrap
	r.Label(fmt.Sprintf("goroutines=%d", c.Goroutines))
	if c.Goroutines == 1 {
		for i := 0; i < total; i++ {
			id, ov := s.Next()
			wid, wov := m.nextVal()
			if id != wid || ov != wov {
				r.Fail("sequence-differs-from-counter-model", "range (%d,%d): call #%d returned (%d,%v), model (%d,%v)", c.Min, c.Max, i+1, id, ov, wid, wov)
				return
			}
		}
		return
	}
	res := make([][]seqResult, c.Goroutines)
	var wg sync.WaitGroup
	startGate := make(chan struct{})
	for g := 0; g < c.Goroutines; g++ {
		wg.Add(1)
		go func(g int) {
			defer wg.Done()
			out := make([]seqResult, 0, c.Calls)
			<-startGate
			for i := 0; i < c.Calls; i++ {
				id, ov := s.Next()
				out = append(out, seqResult{id, ov})
			}
			res[g] = out
		}(g)
	}
	close(startGate)
	wg.Wait()
	// multiset of results == first N outputs of the model
	want := map[seqResult]int{}
	for i := 0; i < total; i++ {
		id, ov := m.nextVal()
		want[seqResult{id, ov}]++
	}
	got := map[seqResult]int{}
	for _, out := range res {
		for _, x := range out {
			got[x]++
		}
	}
	for k, n := range got {
		if want[k] != n {
			kind := "concurrent-results-not-a-counter"
			if n > want[k] && want[k] > 0 {
				kind = "duplicate-id-within-a-cycle"
			}
			r.Fail(kind, "range (%d,%d), %d goroutines x %d calls: result (%d, overflow=%v) returned %d times, an atomic counter returns it %d times", c.Min, c.Max, c.Goroutines, c.Calls, k.id, k.ov, n, want[k])
			return
		}
	}
	for k, n := range want {
		if got[k] != n {
			r.Fail("concurrent-results-not-a-counter", "range (%d,%d): result (%d, overflow=%v) returned %d times, expected %d", c.Min, c.Max, k.id, k.ov, got[k], n)
			return
		}
	}
	// without a wrap inside the run every goroutine sees strictly increasing IDs
	if total <= rangeLen {
		for g, out := range res {
			for i := 1; i < len(out); i++ {
				if out[i].id <= out[i-1].id {
					r.Fail("per-caller-order", "goroutine %d got %d after %d", g, out[i].id, out[i-1].id)
					return
				}
			}
		}
	}
	return
}

func TestC29Seq(t *testing.T) {
	vf.Check(t, vf.Prop[seqCase]{
		ID: "C29", Name: "id-sequence", MarkCurrent: true,
		Rule: "exhaustive, sequential: all (min,max) with 0 <= min <= max <= 6 and all with 0xFFF9 <= min <= max <= 0xFFFF, 3 x (range+1) calls each, and the full range (1,0xFFFF) once with 3 cycles; random, concurrent (race-detector build): 2-8 goroutines x n calls of Next released together on ranges of 1-8 values, on ranges ending at 0xFFFF and on the full range. Oracle: sequential = a counter model (min..max, wrap, overflow exactly on the first value after a wrap); concurrent = the multiset of (id, overflow) results equals the first N outputs of the model, strictly increasing per caller when no wrap occurs, no race report. Non-trivial = the run crosses a wrap; distinct by case.",
		Exhaustive: func(tier string, yield func(seqCase)) {
			for _, base := range []int{0, 0xfff9} {
				for lo := base; lo <= base+6; lo++ {
					for hi := lo; hi <= base+6; hi++ {
						yield(seqCase{Min: uint16(lo), Max: uint16(hi), Goroutines: 1, Calls: 3 * (hi - lo + 2)})
					}
				}
			}
			yield(seqCase{Min: 1, Max: 0xffff, Goroutines: 1, Calls: 3*0xffff + 5})
		},
		Gen: func(t *rapid.T) seqCase {
			c := seqCase{Goroutines: rapid.IntRange(2, 8).Draw(t, "goroutines")}
			switch rapid.IntRange(0, 2).Draw(t, "range") {
			case 0:
				c.Min = uint16(rapid.IntRange(0, 3).Draw(t, "min"))
				c.Max = c.Min + uint16(rapid.IntRange(0, 7).Draw(t, "len"))
				c.Calls = rapid.IntRange(1, 400).Draw(t, "calls")
			case 1:
				c.Max = 0xffff
				c.Min = 0xffff - uint16(rapid.IntRange(0, 50).Draw(t, "len"))
				c.Calls = rapid.IntRange(1, 400).Draw(t, "calls")
			default:
				c.Min, c.Max = 1, 0xffff
				c.Calls = rapid.SampledFrom([]int{100, 5000, 9000}).Draw(t, "calls")
			}
			return c
		},
		Run: runSeq,
	})
}

// ---- transaction store / client state: linearizability of generated concurrent programs ---------

type storeOp struct {
	Op  string `json:"op"` // Store Get Delete StoreByType GetByType DeleteByType SetState GetState
	Key int    `json:"key"`
	Val int    `json:"val"`
}

type storeCase struct {
	Programs [][]storeOp `json:"programs"` // one per goroutine
}

type dummyTx struct {
	transactions.Transaction
	id int
}

type storeIn struct {
	op       string
	key, val int
}
type storeOut struct {
	val int // -1 = absent
}

var storeModel = porcupine.Model{
	Partition: func(history []porcupine.Operation) [][]porcupine.Operation {
		parts := map[string][]porcupine.Operation{}
		for _, o := range history {
			in := o.Input.(storeIn)
			space := "id"
			switch in.op {
			case "StoreByType", "GetByType", "DeleteByType":
				space = "type"
			case "SetState", "GetState":
				space = "state"
			}
			k := fmt.Sprintf("%s/%d", space, in.key)
			parts[k] = append(parts[k], o)
		}
		var out [][]porcupine.Operation
		for _, p := range parts {
			out = append(out, p)
		}
		return out
	},
	Init: func() interface{} { return -1 },
	Step: func(state, input, output interface{}) (bool, interface{}) {
		st, in, out := state.(int), input.(storeIn), output.(storeOut)
		switch in.op {
		case "Store", "StoreByType":
			return true, in.val
		case "Delete", "DeleteByType":
			return true, -1
		case "Get", "GetByType", "GetState":
			if in.op == "GetState" && st == -1 {
				st = 0
			}
			return out.val == st, state
		case "SetState": // returns the old value
			if st == -1 {
				st = 0
			}
			return out.val == st, in.val
		}
		return false, state
	},
}

func runStore(c storeCase) (r vf.Result) {
	ts := transactions.NewTransactionStore()
	state := util.StateDisconnected
	txs := map[int]*dummyTx{}
	for _, p := range c.Programs {
		for _, o := range p {
			if _, ok := txs[o.Val]; !ok {
				txs[o.Val] = &dummyTx{id: o.Val}
			}
		}
	}
	types := []pkts.PacketType{pkts.CONNECT, pkts.PINGREQ, pkts.DISCONNECT}
	// message IDs numerically equal to those packet types (4, 22, 24): the two key spaces must not alias
	ids := []uint16{uint16(pkts.CONNECT), uint16(pkts.PINGREQ), uint16(pkts.DISCONNECT)}
	start := time.Now()
	var clock int64
	now := func() int64 { return int64(time.Since(start))*4 + atomic.AddInt64(&clock, 1)%4 }
	histories := make([][]porcupine.Operation, len(c.Programs))
	var wg sync.WaitGroup
	gate := make(chan struct{})
	idOf := func(t transactions.Transaction, ok bool) int {
		if !ok || t == nil {
			return -1
		}
		return t.(*dummyTx).id
	}
	for g, prog := range c.Programs {
		wg.Add(1)
		go func(g int, prog []storeOp) {
			defer wg.Done()
			<-gate
			for _, o := range prog {
				in := storeIn{o.Op, o.Key, o.Val}
				var out storeOut
				call := now()
				switch o.Op {
				case "Store":
					ts.Store(ids[o.Key%len(ids)], txs[o.Val])
				case "Get":
					out.val = idOf(ts.Get(ids[o.Key%len(ids)]))
				case "Delete":
					ts.Delete(ids[o.Key%len(ids)])
				case "StoreByType":
					ts.StoreByType(types[o.Key%len(types)], txs[o.Val])
				case "GetByType":
					out.val = idOf(ts.GetByType(types[o.Key%len(types)]))
				case "DeleteByType":
					ts.DeleteByType(types[o.Key%len(types)])
				case "SetState":
					in.key = 0
					out.val = int(state.Set(util.ClientState(o.Val % 4)))
					in.val = o.Val % 4
				case "GetState":
					in.key = 0
					out.val = int(state.Get())
				}
				ret := now()
				histories[g] = append(histories[g], porcupine.Operation{ClientId: g, Input: in, Output: out, Call: call, Return: ret})
			}
		}(g, prog)
	}
	close(gate)
	wg.Wait()
	var all []porcupine.Operation
	for _, h := range histories {
		all = append(all, h...)
	}
	if res := porcupine.CheckOperationsTimeout(storeModel, all, 20*time.Second); res == porcupine.Illegal {
		r.Fail("history-not-linearizable", "recorded history of %d operations is not linearizable against an atomic map / register", len(all))
	} else if res == porcupine.Unknown {
		r.Skip = true
	}
	// non-trivial: two goroutines touch the same key of the same key space
	seen := map[string]int{}
	for g, p := range c.Programs {
		for _, o := range p {
			space, key := "id", o.Key
			switch o.Op {
			case "StoreByType", "GetByType", "DeleteByType":
				space = "type"
			case "SetState", "GetState":
				space, key = "state", 0
			}
			k := fmt.Sprintf("%s/%d", space, key)
			if prev, ok := seen[k]; ok && prev != g {
				r.NonTrivial = true
			}
			seen[k] = g
		}
	}
	return
}

func TestC29Store(t *testing.T) {
	vf.Check(t, vf.Prop[storeCase]{
		ID: "C29", Name: "store-linearizable", MarkCurrent: true,
		Rule: "generated concurrent programs (2-6 goroutines x 1-30 operations, released together, race-detector build) over Store/Get/Delete on the message IDs 4, 22 and 24, StoreByType/GetByType/DeleteByType on the packet types CONNECT (4), PINGREQ (22) and DISCONNECT (24), i.e. keys which are numerically equal across the two key spaces, and ClientState.Set/Get, with call/return timestamps recorded; oracle: the recorded history is linearizable against an atomic map per key space and an atomic register (porcupine v1.3.0 decides), and the race detector stays silent. Non-trivial = two goroutines operate on the same key; distinct by case.",
		Assumptions: []string{"real goroutines on real cores, not a bubble: which overlaps occur is up to the scheduler; an undecided (timeout) linearizability search is counted as skipped"},
		Gen: func(t *rapid.T) storeCase {
			var c storeCase
			g := rapid.IntRange(2, 6).Draw(t, "goroutines")
			for i := 0; i < g; i++ {
				n := rapid.IntRange(1, 30).Draw(t, "n")
				var prog []storeOp
				for j := 0; j < n; j++ {
					prog = append(prog, storeOp{
						Op:  rapid.SampledFrom([]string{"Store", "Get", "Delete", "Store", "Get", "StoreByType", "GetByType", "DeleteByType", "SetState", "GetState"}).Draw(t, "op"),
						Key: rapid.IntRange(1, 2).Draw(t, "key"), Val: rapid.IntRange(0, 5).Draw(t, "val")})
				}
				c.Programs = append(c.Programs, prog)
			}
			return c
		},
		Run: runStore,
	})
}
