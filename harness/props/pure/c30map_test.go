package pure

import (
	"fmt"
	"os"
	"sort"
	"strings"
	"testing"

	"pgregory.net/rapid"

	"github.com/energomonitor/bisquitt/topics"

	"verif/harness/vf"
)

// ---- C30, in-process part: the mapping the tools build, in both directions -----------------------
//
// All three tools build their mapping by the same three calls (cmd/*/actions.go: ReadPredefinedTopicsFile,
// ParsePredefinedTopicOptions, Merge) and use it through GetTopicName (gateway: ID -> name) and
// GetTopicID (gateway towards the client, bisquitt-pub, bisquitt-sub: name -> ID). The process-level
// part shows that the tools do that; this part runs the calls themselves over many more
// configurations and judges both directions against the statement's own description of the mapping.

type c30mOption struct {
	Client string `json:"client"` // "" = two-field form
	Name   string `json:"name"`
	ID     uint16 `json:"id"`
}

type c30mCase struct {
	File         map[string]map[uint16]string `json:"file"` // nil = no file
	EmptyDoc     int                          `json:"empty_doc,omitempty"`
	EmptySection int                          `json:"empty_section,omitempty"`
	Options      []c30mOption                 `json:"options"`
}

var c30mNames = []string{"p/one", "p/two", "dev/any/data", "dev: 1", "yes", "q", ""}
var c30mClients = []string{"*", "c1", "c2"}

func genC30Map(t *rapid.T) c30mCase {
	c := c30mCase{}
	name := func(l string) string {
		// few names, so that one name sits under several IDs
		return rapid.SampledFrom(c30mNames[:rapid.SampledFrom([]int{2, 3, 7}).Draw(t, "npool")]).Draw(t, l)
	}
	switch fk := rapid.IntRange(0, 5).Draw(t, "file"); {
	case fk == 0:
	case fk == 1:
		c.File = map[string]map[uint16]string{}
		c.EmptyDoc = rapid.IntRange(0, 6).Draw(t, "empty_doc")
	default:
		c.File = map[string]map[uint16]string{}
		for _, cl := range c30mClients {
			n := rapid.IntRange(0, 4).Draw(t, "nfile")
			if n == 0 && rapid.IntRange(0, 2).Draw(t, "empty_section") == 0 {
				c.File[cl] = map[uint16]string{}
				c.EmptySection = rapid.IntRange(0, 2).Draw(t, "empty_section_form")
			}
			for i := 0; i < n; i++ {
				if c.File[cl] == nil {
					c.File[cl] = map[uint16]string{}
				}
				c.File[cl][uint16(rapid.IntRange(1, 4).Draw(t, "fid"))] = name("fname")
			}
		}
	}
	for i := rapid.IntRange(0, 5).Draw(t, "nopts"); i > 0; i-- {
		c.Options = append(c.Options, c30mOption{Client: rapid.SampledFrom([]string{"", "", "*", "c1", "c2"}).Draw(t, "ocl"), Name: name("oname"), ID: uint16(rapid.IntRange(1, 4).Draw(t, "oid"))})
	}
	return c
}

func (c c30mCase) yaml() string {
	var sb strings.Builder
	sb.WriteString("---\n")
	var cls []string
	for cl := range c.File {
		cls = append(cls, cl)
	}
	sort.Strings(cls)
	q := func(s string) string { return `"` + strings.NewReplacer(`\`, `\\`, `"`, `\"`).Replace(s) + `"` }
	for _, cl := range cls {
		if len(c.File[cl]) == 0 {
			fmt.Fprintf(&sb, "%s:%s\n", q(cl), []string{"", " {}", " ~"}[c.EmptySection%3])
			continue
		}
		fmt.Fprintf(&sb, "%s:\n", q(cl))
		var ids []int
		for id := range c.File[cl] {
			ids = append(ids, int(id))
		}
		sort.Ints(ids)
		for _, id := range ids {
			fmt.Fprintf(&sb, "  %d: %s\n", id, q(c.File[cl][uint16(id)]))
		}
	}
	if len(c.File) == 0 {
		if c.EmptyDoc >= 4 {
			// no document at all: an empty file, a newline, comments only (no "---" either)
			sb.Reset()
			sb.WriteString([]string{"", "\n", "# no entries yet\n# c1:\n#   1: commented/out\n"}[c.EmptyDoc-4])
		} else {
			sb.WriteString([]string{"{}\n", "# c1:\n#   1: commented/out\n", "~\n", "null\n"}[c.EmptyDoc%4])
		}
	}
	return sb.String()
}

func runC30Map(c c30mCase) (r vf.Result) {
	// the statement's mapping: the file's, overridden entry by entry by the options in their order;
	// entries without a client ID belong to "*"
	model := map[string]map[uint16]string{}
	set := func(cl string, id uint16, n string) {
		if model[cl] == nil {
			model[cl] = map[uint16]string{}
		}
		model[cl][id] = n
	}
	for cl, m := range c.File {
		for id, n := range m {
			set(cl, id, n)
		}
	}
	overrides := false
	for _, o := range c.Options {
		cl := o.Client
		if cl == "" {
			cl = "*"
		}
		if _, ok := model[cl][o.ID]; ok {
			overrides = true
		}
		set(cl, o.ID, o.Name)
	}
	r.NonTrivial = c.File != nil && overrides
	// what the tools do (cmd/*/actions.go)
	pt := topics.PredefinedTopics{}
	desc := fmt.Sprintf("file %q options %v", "(none)", c.Options)
	if c.File != nil {
		f, err := os.CreateTemp("", "c30map-*.yaml")
		if err != nil {
			r.Skip = true
			return
		}
		defer os.Remove(f.Name())
		f.WriteString(c.yaml())
		f.Close()
		desc = fmt.Sprintf("file %q options %v", c.yaml(), c.Options)
		v, err := topics.ReadPredefinedTopicsFile(f.Name())
		if err != nil {
			r.Fail("valid-file-refused", "%s: %v", desc, err)
			return
		}
		pt = v
	}
	if len(c.Options) > 0 {
		var opts []string
		for _, o := range c.Options {
			if o.Client == "" {
				opts = append(opts, fmt.Sprintf("%s;%d", o.Name, o.ID))
			} else {
				opts = append(opts, fmt.Sprintf("%s;%s;%d", o.Client, o.Name, o.ID))
			}
		}
		v, err := topics.ParsePredefinedTopicOptions(opts...)
		if err != nil {
			r.Fail("valid-options-refused", "%s: %v", desc, err)
			return
		}
		pt.Merge(v)
	}
	eff := func(cl string, id uint16) (string, bool) {
		if n, ok := model[cl][id]; ok {
			return n, true
		}
		n, ok := model["*"][id]
		return n, ok
	}
	for _, cl := range []string{"c1", "c2", "zz"} {
		for id := uint16(1); id <= 5; id++ {
			want, wok := eff(cl, id)
			got, gok := pt.GetTopicName(cl, id)
			if wok != gok || want != got {
				r.Fail("id-to-name-differs", "%s: client %q ID %d means %q (%v), the tools' mapping says %q (%v)", desc, cl, id, want, wok, got, gok)
				return
			}
		}
		for _, n := range c30mNames {
			var ids []uint16
			for id := uint16(1); id <= 5; id++ {
				if e, ok := eff(cl, id); ok && e == n {
					ids = append(ids, id)
				}
			}
			got, gok := pt.GetTopicID(cl, n)
			switch {
			case len(ids) == 0 && gok:
				r.Fail("name-to-id-invented", "%s: no entry gives client %q the name %q, the tools' mapping answers ID %d", desc, cl, n, got)
				return
			case len(ids) > 0 && !gok:
				r.Fail("name-to-id-misses-applicable-entry", "%s: for client %q the name %q is predefined (IDs %v apply to it), the tools' mapping says it is not", desc, cl, n, ids)
				return
			case gok:
				found := false
				for _, id := range ids {
					if id == got {
						found = true
					}
				}
				if !found {
					r.Fail("name-to-id-other-entry", "%s: for client %q the name %q has the IDs %v, the tools' mapping answers %d", desc, cl, n, ids, got)
					return
				}
			}
			if len(ids) > 1 {
				r.Label("name-under-several-ids")
			}
		}
	}
	return
}

func TestC30Map(t *testing.T) {
	vf.Check(t, vf.Prop[c30mCase]{
		ID: "C30", Name: "mapping-in-process",
		Rule: "in-process: the three calls every tool makes (ReadPredefinedTopicsFile on a generated YAML file, ParsePredefinedTopicOptions, Merge) over files with 0-3 client blocks ('*', c1, c2; IDs 1-4; names from a pool of 2, 3 or 7 so that one name sits under several IDs; empty documents (also files without any document: empty, a newline, comments only) and empty blocks in all their spellings) and 0-5 options (two- and three-field forms, overlapping); then GetTopicName for clients c1, c2, zz x IDs 1-5 and GetTopicID for the same clients x every name. Non-trivial = a file and an option which overrides an entry; distinct by case.",
		Assumptions: []string{"oracle: the statement's mapping computed by the harness (file, then options in order, entry by entry; no client ID = '*'; a client's own entry shadows the '*' entry of that ID): ID -> name must agree exactly; name -> ID must answer an ID whose effective name for that client is the name whenever one exists, and nothing otherwise (which of several applicable IDs is answered is free)"},
		Gen:         genC30Map,
		Run:         runC30Map,
	})
}
