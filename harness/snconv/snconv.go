// Package snconv converts between bisquitt's packet structs and the reference
// snref.Pkt, so that the implementation's decoder/encoder can be compared with
// the reference field by field.
package snconv

import (
	"fmt"

	pkts "github.com/energomonitor/bisquitt/packets"
	p1 "github.com/energomonitor/bisquitt/packets1"

	"verif/harness/snref"
)

// FromImpl reads every exported field / accessor of an implementation packet.
func FromImpl(x pkts.Packet) (snref.Pkt, error) {
	switch p := x.(type) {
	case *p1.Advertise:
		return snref.Pkt{Type: snref.ADVERTISE, GwID: p.GatewayID, Duration: p.Duration}, nil
	case *p1.SearchGw:
		return snref.Pkt{Type: snref.SEARCHGW, Radius: p.Radius}, nil
	case *p1.GwInfo:
		return snref.Pkt{Type: snref.GWINFO, GwID: p.GatewayID, GwAddr: p.GatewayAddress}, nil
	case *p1.Auth:
		return snref.Pkt{Type: snref.AUTH, Reason: p.Reason, Method: p.Method, Data: p.Data}, nil
	case *p1.Connect:
		return snref.Pkt{Type: snref.CONNECT, Will: p.Will, Clean: p.CleanSession, ProtocolID: p.ProtocolID,
			Duration: p.Duration, ClientID: p.ClientID}, nil
	case *p1.Connack:
		return snref.Pkt{Type: snref.CONNACK, RC: byte(p.ReturnCode)}, nil
	case *p1.WillTopicReq:
		return snref.Pkt{Type: snref.WILLTOPICREQ}, nil
	case *p1.WillTopic:
		if p.WillTopic == "" {
			return snref.Pkt{Type: snref.WILLTOPIC, EmptyForm: true}, nil
		}
		return snref.Pkt{Type: snref.WILLTOPIC, QoS: p.QOS, Retain: p.Retain, TopicName: p.WillTopic}, nil
	case *p1.WillMsgReq:
		return snref.Pkt{Type: snref.WILLMSGREQ}, nil
	case *p1.WillMsg:
		return snref.Pkt{Type: snref.WILLMSG, Data: p.WillMsg}, nil
	case *p1.Register:
		return snref.Pkt{Type: snref.REGISTER, TopicID: p.TopicID, MsgID: p.MessageID(), TopicName: p.TopicName}, nil
	case *p1.Regack:
		return snref.Pkt{Type: snref.REGACK, TopicID: p.TopicID, MsgID: p.MessageID(), RC: byte(p.ReturnCode)}, nil
	case *p1.Publish:
		return snref.Pkt{Type: snref.PUBLISH, DUP: p.DUP(), QoS: p.QOS, Retain: p.Retain, TIT: p.TopicIDType,
			TopicID: p.TopicID, MsgID: p.MessageID(), Data: p.Data}, nil
	case *p1.Puback:
		return snref.Pkt{Type: snref.PUBACK, TopicID: p.TopicID, MsgID: p.MessageID(), RC: byte(p.ReturnCode)}, nil
	case *p1.Pubcomp:
		return snref.Pkt{Type: snref.PUBCOMP, MsgID: p.MessageID()}, nil
	case *p1.Pubrec:
		return snref.Pkt{Type: snref.PUBREC, MsgID: p.MessageID()}, nil
	case *p1.Pubrel:
		return snref.Pkt{Type: snref.PUBREL, MsgID: p.MessageID()}, nil
	case *p1.Subscribe:
		return snref.Pkt{Type: snref.SUBSCRIBE, DUP: p.DUP(), QoS: p.QOS, TIT: p.TopicIDType, MsgID: p.MessageID(),
			TopicID: p.TopicID, TopicName: p.TopicName}, nil
	case *p1.Suback:
		return snref.Pkt{Type: snref.SUBACK, QoS: p.QOS, TopicID: p.TopicID, MsgID: p.MessageID(), RC: byte(p.ReturnCode)}, nil
	case *p1.Unsubscribe:
		return snref.Pkt{Type: snref.UNSUBSCRIBE, TIT: p.TopicIDType, MsgID: p.MessageID(),
			TopicID: p.TopicID, TopicName: p.TopicName}, nil
	case *p1.Unsuback:
		return snref.Pkt{Type: snref.UNSUBACK, MsgID: p.MessageID()}, nil
	case *p1.Pingreq:
		return snref.Pkt{Type: snref.PINGREQ, ClientID: p.ClientID}, nil
	case *p1.Pingresp:
		return snref.Pkt{Type: snref.PINGRESP}, nil
	case *p1.Disconnect:
		return snref.Pkt{Type: snref.DISCONNECT, Duration: p.Duration, NoDuration: p.Duration == 0}, nil
	case *p1.WillTopicUpd:
		if p.WillTopic == "" {
			return snref.Pkt{Type: snref.WILLTOPICUPD, EmptyForm: true}, nil
		}
		return snref.Pkt{Type: snref.WILLTOPICUPD, QoS: p.QOS, Retain: p.Retain, TopicName: p.WillTopic}, nil
	case *p1.WillTopicResp:
		return snref.Pkt{Type: snref.WILLTOPICRESP, RC: byte(p.ReturnCode)}, nil
	case *p1.WillMsgUpd:
		return snref.Pkt{Type: snref.WILLMSGUPD, Data: p.WillMsg}, nil
	case *p1.WillMsgResp:
		return snref.Pkt{Type: snref.WILLMSGRESP, RC: byte(p.ReturnCode)}, nil
	}
	return snref.Pkt{}, fmt.Errorf("unknown implementation packet %T", x)
}

// ToImpl builds the implementation packet through the package's public
// constructors (what library users do).
func ToImpl(r snref.Pkt) (pkts.Packet, error) {
	switch r.Type {
	case snref.ADVERTISE:
		return p1.NewAdvertise(r.GwID, r.Duration), nil
	case snref.SEARCHGW:
		return p1.NewSearchGw(r.Radius), nil
	case snref.GWINFO:
		return p1.NewGwInfo(r.GwID, r.GwAddr), nil
	case snref.AUTH:
		return &p1.Auth{Header: *pkts.NewHeader(pkts.AUTH, 0), Reason: r.Reason, Method: r.Method, Data: r.Data}, nil
	case snref.CONNECT:
		c := p1.NewConnect(r.Duration, r.ClientID, r.Will, r.Clean)
		c.ProtocolID = r.ProtocolID
		return c, nil
	case snref.CONNACK:
		return p1.NewConnack(p1.ReturnCode(r.RC)), nil
	case snref.WILLTOPICREQ:
		return p1.NewWillTopicReq(), nil
	case snref.WILLTOPIC:
		if r.EmptyForm {
			return p1.NewWillTopic("", 0, false), nil
		}
		return p1.NewWillTopic(r.TopicName, r.QoS, r.Retain), nil
	case snref.WILLMSGREQ:
		return p1.NewWillMsgReq(), nil
	case snref.WILLMSG:
		return p1.NewWillMsg(r.Data), nil
	case snref.REGISTER:
		x := p1.NewRegister(r.TopicID, r.TopicName)
		x.SetMessageID(r.MsgID)
		return x, nil
	case snref.REGACK:
		x := p1.NewRegack(r.TopicID, p1.ReturnCode(r.RC))
		x.SetMessageID(r.MsgID)
		return x, nil
	case snref.PUBLISH:
		x := p1.NewPublish(r.TopicID, r.Data, r.DUP, r.QoS, r.Retain, r.TIT)
		x.SetMessageID(r.MsgID)
		return x, nil
	case snref.PUBACK:
		x := p1.NewPuback(r.TopicID, p1.ReturnCode(r.RC))
		x.SetMessageID(r.MsgID)
		return x, nil
	case snref.PUBCOMP:
		x := p1.NewPubcomp()
		x.SetMessageID(r.MsgID)
		return x, nil
	case snref.PUBREC:
		x := p1.NewPubrec()
		x.SetMessageID(r.MsgID)
		return x, nil
	case snref.PUBREL:
		x := p1.NewPubrel()
		x.SetMessageID(r.MsgID)
		return x, nil
	case snref.SUBSCRIBE:
		x := p1.NewSubscribe(r.TopicName, r.TopicID, r.DUP, r.QoS, r.TIT)
		x.SetMessageID(r.MsgID)
		return x, nil
	case snref.SUBACK:
		x := p1.NewSuback(r.TopicID, p1.ReturnCode(r.RC), r.QoS)
		x.SetMessageID(r.MsgID)
		return x, nil
	case snref.UNSUBSCRIBE:
		x := p1.NewUnsubscribe(r.TopicName, r.TopicID, r.TIT)
		x.SetMessageID(r.MsgID)
		return x, nil
	case snref.UNSUBACK:
		x := p1.NewUnsuback()
		x.SetMessageID(r.MsgID)
		return x, nil
	case snref.PINGREQ:
		return p1.NewPingreq(r.ClientID), nil
	case snref.PINGRESP:
		return p1.NewPingresp(), nil
	case snref.DISCONNECT:
		return p1.NewDisconnect(r.Duration), nil
	case snref.WILLTOPICUPD:
		if r.EmptyForm {
			return p1.NewWillTopicUpd("", 0, false), nil
		}
		return p1.NewWillTopicUpd(r.TopicName, r.QoS, r.Retain), nil
	case snref.WILLTOPICRESP:
		return p1.NewWillTopicResp(p1.ReturnCode(r.RC)), nil
	case snref.WILLMSGUPD:
		return p1.NewWillMsgUpd(r.Data), nil
	case snref.WILLMSGRESP:
		return p1.NewWillMsgResp(p1.ReturnCode(r.RC)), nil
	}
	return nil, fmt.Errorf("unknown type 0x%02x", r.Type)
}
