// Package sngen holds rapid generators for MQTT-SN packets and datagrams.
package sngen

import (
	"pgregory.net/rapid"

	"verif/harness/snref"
)

// U16 draws a boundary-biased uint16.
func U16() *rapid.Generator[uint16] {
	return rapid.OneOf(
		rapid.SampledFrom([]uint16{0, 1, 2, 0x00ff, 0x0100, 0x0101, 0x7fff, 0x8000, 0xfffe, 0xffff}),
		rapid.Uint16(),
	)
}

// Len draws a length in 0..max with the 1-octet/3-octet header switch
// over-sampled: fixed is the size of the packet's other fields (header
// excluded).
func Len(min, max, fixed int) *rapid.Generator[int] {
	sw := 253 - fixed // body length at which total == 255
	var near []int
	for d := -4; d <= 4; d++ {
		if v := sw + d; v >= min && v <= max {
			near = append(near, v)
		}
	}
	gens := []*rapid.Generator[int]{
		rapid.IntRange(min, min+8),
		rapid.IntRange(min, max),
		rapid.SampledFrom([]int{min, max, max - 1}),
	}
	if len(near) > 0 {
		gens = append(gens, rapid.SampledFrom(near), rapid.SampledFrom(near))
	}
	if max >= 4100 {
		gens = append(gens, rapid.IntRange(4090, 4100))
	}
	return rapid.OneOf(gens...)
}

func bytesN(t *rapid.T, n int, label string) []byte {
	if n == 0 {
		if rapid.Bool().Draw(t, label+"_nil") {
			return nil
		}
		return []byte{}
	}
	seed := rapid.Byte().Draw(t, label+"_seed")
	mode := rapid.IntRange(0, 2).Draw(t, label+"_mode")
	b := make([]byte, n)
	for i := range b {
		switch mode {
		case 0:
			b[i] = seed + byte(i*31)
		case 1:
			b[i] = seed
		default:
			b[i] = byte('a' + (int(seed)+i)%26)
		}
	}
	// a few explicit hostile bytes
	if n > 0 && rapid.Bool().Draw(t, label+"_poke") {
		b[rapid.IntRange(0, n-1).Draw(t, label+"_pos")] = rapid.SampledFrom([]byte{0, 1, 0xff, '+', '#', '/'}).Draw(t, label+"_val")
	}
	return b
}

const MaxPayload = 7168

// LegalPkt draws a packet of type typ whose fields are in their legal ranges.
func LegalPkt(t *rapid.T, typ byte) snref.Pkt {
	p := snref.Pkt{Type: typ}
	u16 := func(l string) uint16 { return U16().Draw(t, l) }
	rc := func() byte { return rapid.SampledFrom([]byte{0, 1, 2, 3, 4, 0xff}).Draw(t, "rc") }
	switch typ {
	case snref.ADVERTISE:
		p.GwID, p.Duration = rapid.Byte().Draw(t, "gwid"), u16("dur")
	case snref.SEARCHGW:
		p.Radius = rapid.Byte().Draw(t, "radius")
	case snref.GWINFO:
		p.GwID = rapid.Byte().Draw(t, "gwid")
		p.GwAddr = bytesN(t, Len(0, 300, 1).Draw(t, "n"), "addr")
	case snref.AUTH:
		p.Reason = rapid.SampledFrom([]byte{0, 0x18, 0x19, 0xff}).Draw(t, "reason")
		ml := rapid.OneOf(rapid.IntRange(0, 8), rapid.IntRange(0, 255), rapid.IntRange(250, 255)).Draw(t, "mlen")
		p.Method = string(bytesN(t, ml, "method"))
		if rapid.Bool().Draw(t, "plain") {
			p.Method = "PLAIN"
			ml = 5
		}
		p.Data = bytesN(t, Len(0, MaxPayload, 2+ml).Draw(t, "n"), "data")
	case snref.CONNECT:
		p.Will, p.Clean = rapid.Bool().Draw(t, "will"), rapid.Bool().Draw(t, "clean")
		p.ProtocolID = 1
		p.Duration = u16("dur")
		p.ClientID = bytesN(t, rapid.OneOf(rapid.IntRange(1, 23), Len(1, 300, 4)).Draw(t, "n"), "cid")
	case snref.CONNACK, snref.WILLTOPICRESP, snref.WILLMSGRESP:
		p.RC = rc()
	case snref.WILLTOPICREQ, snref.WILLMSGREQ, snref.PINGRESP:
	case snref.WILLTOPIC, snref.WILLTOPICUPD:
		if rapid.IntRange(0, 5).Draw(t, "empty") == 0 {
			p.EmptyForm = true
		} else {
			p.QoS, p.Retain = byte(rapid.IntRange(0, 2).Draw(t, "qos")), rapid.Bool().Draw(t, "retain")
			p.TopicName = string(bytesN(t, Len(1, MaxPayload, 1).Draw(t, "n"), "name"))
		}
	case snref.WILLMSG, snref.WILLMSGUPD:
		p.Data = bytesN(t, Len(0, MaxPayload, 0).Draw(t, "n"), "data")
	case snref.REGISTER:
		p.TopicID, p.MsgID = u16("tid"), u16("mid")
		p.TopicName = string(bytesN(t, Len(1, MaxPayload, 4).Draw(t, "n"), "name"))
	case snref.REGACK, snref.PUBACK:
		p.TopicID, p.MsgID, p.RC = u16("tid"), u16("mid"), rc()
	case snref.PUBLISH:
		p.DUP, p.Retain = rapid.Bool().Draw(t, "dup"), rapid.Bool().Draw(t, "retain")
		p.QoS = byte(rapid.IntRange(0, 3).Draw(t, "qos"))
		p.TIT = byte(rapid.IntRange(0, 2).Draw(t, "tit"))
		p.TopicID, p.MsgID = u16("tid"), u16("mid")
		p.Data = bytesN(t, Len(0, MaxPayload, 5).Draw(t, "n"), "data")
	case snref.PUBCOMP, snref.PUBREC, snref.PUBREL, snref.UNSUBACK:
		p.MsgID = u16("mid")
	case snref.SUBSCRIBE, snref.UNSUBSCRIBE:
		if typ == snref.SUBSCRIBE {
			p.DUP = rapid.Bool().Draw(t, "dup")
			p.QoS = byte(rapid.IntRange(0, 2).Draw(t, "qos"))
		}
		p.TIT = byte(rapid.IntRange(0, 2).Draw(t, "tit"))
		p.MsgID = u16("mid")
		if p.TIT == snref.TITNormal {
			p.TopicName = string(bytesN(t, Len(1, MaxPayload, 3).Draw(t, "n"), "name"))
		} else {
			p.TopicID = u16("tid")
		}
	case snref.SUBACK:
		p.QoS = byte(rapid.IntRange(0, 2).Draw(t, "qos"))
		p.TopicID, p.MsgID, p.RC = u16("tid"), u16("mid"), rc()
	case snref.PINGREQ:
		p.ClientID = bytesN(t, rapid.OneOf(rapid.IntRange(0, 23), Len(0, 300, 0)).Draw(t, "n"), "cid")
	case snref.DISCONNECT:
		if rapid.Bool().Draw(t, "sleep") {
			p.Duration = rapid.OneOf(rapid.Uint16Range(1, 0xffff), rapid.SampledFrom([]uint16{1, 0xff, 0x100, 0xffff})).Draw(t, "dur")
		} else {
			p.NoDuration = true
		}
	}
	return p
}

// AnyType draws one of the 28 packet types.
func AnyType() *rapid.Generator[byte] { return rapid.SampledFrom(snref.AllTypes) }

// Datagram draws a byte string biased towards the decoder's interesting
// regions: tiny inputs, valid packets, and valid packets whose header form,
// length field, type or size have been tampered with.
func Datagram(t *rapid.T) []byte {
	switch rapid.IntRange(0, 9).Draw(t, "dgram_mode") {
	case 0: // tiny inputs over a hostile alphabet
		n := rapid.IntRange(0, 8).Draw(t, "n")
		b := make([]byte, n)
		for i := range b {
			b[i] = rapid.OneOf(rapid.SampledFrom([]byte{0, 1, 2, 3, 4, 5, 7, 0x0c, 0x12, 0x16, 0x18, 0xfe, 0xff}), rapid.Byte()).Draw(t, "b")
		}
		return b
	case 1: // arbitrary bytes behind a plausible header
		typ := rapid.OneOf(AnyType(), rapid.Byte()).Draw(t, "type")
		body := bytesN(t, rapid.OneOf(rapid.IntRange(0, 12), rapid.IntRange(0, 300)).Draw(t, "n"), "body")
		return tamper(t, typ, body)
	default: // valid packet, then tamper with header / size
		p := LegalPkt(t, AnyType().Draw(t, "type"))
		if snref.DefinedFlags(p.Type) != 0 || p.Type == snref.WILLTOPIC {
			p.ExtraFlags = rapid.SampledFrom([]byte{0, 0, 0xff, 0x03, 0x80, 0x1c}).Draw(t, "xflags")
		}
		if p.Type == snref.PUBLISH || p.Type == snref.SUBSCRIBE || p.Type == snref.UNSUBSCRIBE {
			if rapid.IntRange(0, 7).Draw(t, "tit3") == 0 {
				p.TIT = 3
			}
		}
		if p.Type == snref.DISCONNECT && rapid.IntRange(0, 3).Draw(t, "zerodur") == 0 {
			p.Duration, p.NoDuration, p.ForceDuration = 0, false, true
		}
		if p.Type == snref.AUTH && rapid.IntRange(0, 2).Draw(t, "authtrunc") == 0 {
			// method length octet larger than what is present
			body := p.Body()
			body[1] = rapid.SampledFrom([]byte{250, 253, 254, 255, byte(len(p.Method) + 1)}).Draw(t, "mlen")
			keep := rapid.IntRange(2, len(body)).Draw(t, "keep")
			return tamper(t, p.Type, body[:keep])
		}
		return tamper(t, p.Type, p.Body())
	}
}

func tamper(t *rapid.T, typ byte, body []byte) []byte {
	good := snref.Frame(typ, body)
	switch rapid.IntRange(0, 9).Draw(t, "tamper") {
	case 0, 1, 2, 3: // untouched
		return good
	case 4: // three-octet form regardless of size
		n := len(body) + 4
		return append([]byte{1, byte(n >> 8), byte(n), typ}, body...)
	case 5: // three-octet form with a lying length
		n := rapid.SampledFrom([]int{0, 1, 2, 3, 4, 5, 255, 256, len(body) + 3, len(body) + 5, 0xffff}).Draw(t, "len")
		return append([]byte{1, byte(n >> 8), byte(n), typ}, body...)
	case 6: // one-octet form with a lying length
		n := rapid.SampledFrom([]int{0, 2, 3, len(body) + 1, len(body) + 3, 255}).Draw(t, "len")
		if n == 1 {
			n = 0
		}
		return append([]byte{byte(n), typ}, body...)
	case 7: // truncated
		return good[:rapid.IntRange(0, len(good)).Draw(t, "cut")]
	case 8: // extended
		return append(good, bytesN(t, rapid.IntRange(1, 4).Draw(t, "extra"), "tail")...)
	default: // three-octet header cut to 1-3 octets
		n := len(body) + 4
		h := []byte{1, byte(n >> 8), byte(n), typ}
		return h[:rapid.IntRange(1, 3).Draw(t, "cut")]
	}
}
