// Package snref is an independent reference encoder/decoder for MQTT-SN 1.2
// datagrams (plus bisquitt's documented AUTH extension, doc/auth.md), written
// from the specification's message tables (chapter 5) and not from the code
// under test. It is the oracle side of the codec properties and the wire
// language of the scripted peers.
package snref

import (
	"encoding/binary"
	"errors"
	"fmt"
)

const (
	ADVERTISE     = 0x00
	SEARCHGW      = 0x01
	GWINFO        = 0x02
	AUTH          = 0x03 // bisquitt extension (doc/auth.md)
	CONNECT       = 0x04
	CONNACK       = 0x05
	WILLTOPICREQ  = 0x06
	WILLTOPIC     = 0x07
	WILLMSGREQ    = 0x08
	WILLMSG       = 0x09
	REGISTER      = 0x0A
	REGACK        = 0x0B
	PUBLISH       = 0x0C
	PUBACK        = 0x0D
	PUBCOMP       = 0x0E
	PUBREC        = 0x0F
	PUBREL        = 0x10
	SUBSCRIBE     = 0x12
	SUBACK        = 0x13
	UNSUBSCRIBE   = 0x14
	UNSUBACK      = 0x15
	PINGREQ       = 0x16
	PINGRESP      = 0x17
	DISCONNECT    = 0x18
	WILLTOPICUPD  = 0x1A
	WILLTOPICRESP = 0x1B
	WILLMSGUPD    = 0x1C
	WILLMSGRESP   = 0x1D
)

// AllTypes lists the 28 packet types bisquitt knows.
var AllTypes = []byte{ADVERTISE, SEARCHGW, GWINFO, AUTH, CONNECT, CONNACK, WILLTOPICREQ, WILLTOPIC,
	WILLMSGREQ, WILLMSG, REGISTER, REGACK, PUBLISH, PUBACK, PUBCOMP, PUBREC, PUBREL, SUBSCRIBE,
	SUBACK, UNSUBSCRIBE, UNSUBACK, PINGREQ, PINGRESP, DISCONNECT, WILLTOPICUPD, WILLTOPICRESP,
	WILLMSGUPD, WILLMSGRESP}

var names = map[byte]string{ADVERTISE: "ADVERTISE", SEARCHGW: "SEARCHGW", GWINFO: "GWINFO", AUTH: "AUTH",
	CONNECT: "CONNECT", CONNACK: "CONNACK", WILLTOPICREQ: "WILLTOPICREQ", WILLTOPIC: "WILLTOPIC",
	WILLMSGREQ: "WILLMSGREQ", WILLMSG: "WILLMSG", REGISTER: "REGISTER", REGACK: "REGACK",
	PUBLISH: "PUBLISH", PUBACK: "PUBACK", PUBCOMP: "PUBCOMP", PUBREC: "PUBREC", PUBREL: "PUBREL",
	SUBSCRIBE: "SUBSCRIBE", SUBACK: "SUBACK", UNSUBSCRIBE: "UNSUBSCRIBE", UNSUBACK: "UNSUBACK",
	PINGREQ: "PINGREQ", PINGRESP: "PINGRESP", DISCONNECT: "DISCONNECT", WILLTOPICUPD: "WILLTOPICUPD",
	WILLTOPICRESP: "WILLTOPICRESP", WILLMSGUPD: "WILLMSGUPD", WILLMSGRESP: "WILLMSGRESP"}

func TypeName(t byte) string {
	if n, ok := names[t]; ok {
		return n
	}
	return fmt.Sprintf("type0x%02x", t)
}

func KnownType(t byte) bool { _, ok := names[t]; return ok }

// Flag bits (spec 5.3.4).
const (
	FDUP    = 0x80
	FQoS    = 0x60
	FRetain = 0x10
	FWill   = 0x08
	FClean  = 0x04
	FTIT    = 0x03
)

// DefinedFlags gives, per packet type, the flag bits that type defines (spec
// 5.4.x); the remaining bits of its Flags octet are "not used".
func DefinedFlags(t byte) byte {
	switch t {
	case CONNECT:
		return FWill | FClean
	case WILLTOPIC, WILLTOPICUPD:
		return FQoS | FRetain
	case PUBLISH:
		return FDUP | FQoS | FRetain | FTIT
	case SUBSCRIBE:
		return FDUP | FQoS | FTIT
	case SUBACK:
		return FQoS
	case UNSUBSCRIBE:
		return FTIT
	}
	return 0
}

// Topic-ID types.
const (
	TITNormal     = 0 // registered ID; in SUBSCRIBE/UNSUBSCRIBE: topic name string
	TITPredefined = 1
	TITShort      = 2
	TITReserved   = 3
)

// Pkt is a type-agnostic MQTT-SN packet: only the fields its Type defines are
// meaningful.
type Pkt struct {
	Type   byte `json:"type"`
	DUP    bool `json:"dup,omitempty"`
	QoS    byte `json:"qos,omitempty"` // 0..3 (3 = QoS -1)
	Retain bool `json:"retain,omitempty"`
	Will   bool `json:"will,omitempty"`
	Clean  bool `json:"clean,omitempty"`
	TIT    byte `json:"tit,omitempty"`
	// ExtraFlags are OR-ed into the Flags octet when encoding (bits the type
	// does not define); Decode stores the undefined bits it saw here.
	ExtraFlags byte   `json:"xflags,omitempty"`
	TopicID    uint16 `json:"tid,omitempty"`
	MsgID      uint16 `json:"mid,omitempty"`
	RC         byte   `json:"rc,omitempty"`
	Duration   uint16 `json:"dur,omitempty"`
	// NoDuration: DISCONNECT without the optional Duration field. Decode sets
	// it; Encode omits the field when NoDuration or Duration==0 and !ForceDuration.
	NoDuration    bool   `json:"nodur,omitempty"`
	ForceDuration bool   `json:"forcedur,omitempty"`
	ProtocolID    byte   `json:"proto,omitempty"`
	ClientID      []byte `json:"cid,omitempty"`
	TopicName     string `json:"name,omitempty"` // REGISTER, SUBSCRIBE/UNSUBSCRIBE by name, WILLTOPIC[UPD]
	Data          []byte `json:"data,omitempty"` // PUBLISH data, WILLMSG[UPD], AUTH data
	GwID          byte   `json:"gwid,omitempty"`
	GwAddr        []byte `json:"gwaddr,omitempty"`
	Radius        byte   `json:"radius,omitempty"`
	Reason        byte   `json:"reason,omitempty"`
	Method        string `json:"method,omitempty"`
	// EmptyForm: WILLTOPIC / WILLTOPICUPD without Flags and topic (2-octet message).
	EmptyForm bool `json:"emptyform,omitempty"`
}

func (p Pkt) String() string {
	n := TypeName(p.Type)
	switch p.Type {
	case CONNECT:
		return fmt.Sprintf("%s(id=%q dur=%d will=%v clean=%v)", n, p.ClientID, p.Duration, p.Will, p.Clean)
	case CONNACK, WILLTOPICRESP, WILLMSGRESP:
		return fmt.Sprintf("%s(rc=%d)", n, p.RC)
	case AUTH:
		return fmt.Sprintf("%s(method=%q data=%q)", n, p.Method, p.Data)
	case WILLTOPIC, WILLTOPICUPD:
		if p.EmptyForm {
			return n + "(empty)"
		}
		return fmt.Sprintf("%s(%q qos=%d retain=%v)", n, p.TopicName, p.QoS, p.Retain)
	case WILLMSG, WILLMSGUPD:
		return fmt.Sprintf("%s(len=%d)", n, len(p.Data))
	case REGISTER:
		return fmt.Sprintf("%s(tid=%d mid=%d name=%q)", n, p.TopicID, p.MsgID, p.TopicName)
	case REGACK, PUBACK:
		return fmt.Sprintf("%s(tid=%d mid=%d rc=%d)", n, p.TopicID, p.MsgID, p.RC)
	case PUBLISH:
		return fmt.Sprintf("%s(tit=%d tid=%d qos=%d dup=%v retain=%v mid=%d len=%d)", n, p.TIT, p.TopicID, p.QoS, p.DUP, p.Retain, p.MsgID, len(p.Data))
	case PUBCOMP, PUBREC, PUBREL, UNSUBACK:
		return fmt.Sprintf("%s(mid=%d)", n, p.MsgID)
	case SUBSCRIBE, UNSUBSCRIBE:
		if p.TIT == TITNormal {
			return fmt.Sprintf("%s(name=%q qos=%d mid=%d dup=%v)", n, p.TopicName, p.QoS, p.MsgID, p.DUP)
		}
		return fmt.Sprintf("%s(tit=%d tid=%d qos=%d mid=%d dup=%v)", n, p.TIT, p.TopicID, p.QoS, p.MsgID, p.DUP)
	case SUBACK:
		return fmt.Sprintf("%s(tid=%d mid=%d rc=%d qos=%d)", n, p.TopicID, p.MsgID, p.RC, p.QoS)
	case PINGREQ:
		return fmt.Sprintf("%s(id=%q)", n, p.ClientID)
	case DISCONNECT:
		if p.NoDuration {
			return n + "()"
		}
		return fmt.Sprintf("%s(dur=%d)", n, p.Duration)
	}
	return n
}

func (p Pkt) flags() byte {
	var f byte
	d := DefinedFlags(p.Type)
	if p.DUP {
		f |= FDUP
	}
	f |= (p.QoS << 5) & FQoS
	if p.Retain {
		f |= FRetain
	}
	if p.Will {
		f |= FWill
	}
	if p.Clean {
		f |= FClean
	}
	f |= p.TIT & FTIT
	return (f & d) | (p.ExtraFlags &^ d)
}

func u16(v uint16) []byte { return []byte{byte(v >> 8), byte(v)} }

// Body encodes the variable part.
func (p Pkt) Body() []byte {
	var b []byte
	switch p.Type {
	case ADVERTISE:
		b = append([]byte{p.GwID}, u16(p.Duration)...)
	case SEARCHGW:
		b = []byte{p.Radius}
	case GWINFO:
		b = append([]byte{p.GwID}, p.GwAddr...)
	case AUTH:
		b = append([]byte{p.Reason, byte(len(p.Method))}, p.Method...)
		b = append(b, p.Data...)
	case CONNECT:
		b = append([]byte{p.flags(), p.ProtocolID}, u16(p.Duration)...)
		b = append(b, p.ClientID...)
	case CONNACK, WILLTOPICRESP, WILLMSGRESP:
		b = []byte{p.RC}
	case WILLTOPICREQ, WILLMSGREQ, PINGRESP:
	case WILLTOPIC, WILLTOPICUPD:
		if !p.EmptyForm {
			b = append([]byte{p.flags()}, p.TopicName...)
		}
	case WILLMSG, WILLMSGUPD:
		b = append(b, p.Data...)
	case REGISTER:
		b = append(u16(p.TopicID), u16(p.MsgID)...)
		b = append(b, p.TopicName...)
	case REGACK, PUBACK:
		b = append(u16(p.TopicID), u16(p.MsgID)...)
		b = append(b, p.RC)
	case PUBLISH:
		b = append([]byte{p.flags()}, u16(p.TopicID)...)
		b = append(b, u16(p.MsgID)...)
		b = append(b, p.Data...)
	case PUBCOMP, PUBREC, PUBREL, UNSUBACK:
		b = u16(p.MsgID)
	case SUBSCRIBE, UNSUBSCRIBE:
		b = append([]byte{p.flags()}, u16(p.MsgID)...)
		if p.TIT == TITNormal {
			b = append(b, p.TopicName...)
		} else {
			b = append(b, u16(p.TopicID)...)
		}
	case SUBACK:
		b = append([]byte{p.flags()}, u16(p.TopicID)...)
		b = append(b, u16(p.MsgID)...)
		b = append(b, p.RC)
	case PINGREQ:
		b = append(b, p.ClientID...)
	case DISCONNECT:
		if p.ForceDuration || (!p.NoDuration && p.Duration != 0) {
			b = u16(p.Duration)
		}
	}
	return b
}

// Frame prepends the header (spec 5.2.1): one-octet Length when the total is
// at most 255, otherwise 0x01 followed by a two-octet Length.
func Frame(t byte, body []byte) []byte {
	n := len(body) + 2
	if n <= 255 {
		return append([]byte{byte(n), t}, body...)
	}
	n = len(body) + 4
	return append([]byte{1, byte(n >> 8), byte(n), t}, body...)
}

// Encode gives the datagram for p.
func Encode(p Pkt) []byte { return Frame(p.Type, p.Body()) }

// Header is the parsed header of a datagram.
type Header struct {
	Long      bool // three-octet length form
	Length    int  // value of the Length field
	Type      byte
	HeaderLen int
}

var ErrShort = errors.New("datagram too short for its header")

// ParseHeader reads the actual header: four octets iff the first octet is 0x01.
func ParseHeader(b []byte) (Header, error) {
	if len(b) < 2 {
		return Header{}, ErrShort
	}
	if b[0] == 1 {
		if len(b) < 4 {
			return Header{}, ErrShort
		}
		return Header{Long: true, Length: int(binary.BigEndian.Uint16(b[1:3])), Type: b[3], HeaderLen: 4}, nil
	}
	return Header{Length: int(b[0]), Type: b[1], HeaderLen: 2}, nil
}

// Decode parses a datagram. With strict=true the Length field must equal the
// datagram size (what a well-formed sender produces); otherwise the body is
// everything after the actual header.
func Decode(b []byte, strict bool) (Pkt, Header, error) {
	h, err := ParseHeader(b)
	if err != nil {
		return Pkt{}, h, err
	}
	if strict && h.Length != len(b) {
		return Pkt{}, h, fmt.Errorf("length field %d != datagram size %d", h.Length, len(b))
	}
	if strict && h.Long && h.Length <= 255 {
		return Pkt{}, h, fmt.Errorf("three-octet length form used for length %d", h.Length)
	}
	p, err := DecodeBody(h.Type, b[h.HeaderLen:])
	return p, h, err
}

func setFlags(p *Pkt, f byte) {
	d := DefinedFlags(p.Type)
	if d&FDUP != 0 {
		p.DUP = f&FDUP != 0
	}
	if d&FQoS != 0 {
		p.QoS = (f & FQoS) >> 5
	}
	if d&FRetain != 0 {
		p.Retain = f&FRetain != 0
	}
	if d&FWill != 0 {
		p.Will = f&FWill != 0
	}
	if d&FClean != 0 {
		p.Clean = f&FClean != 0
	}
	if d&FTIT != 0 {
		p.TIT = f & FTIT
	}
	p.ExtraFlags = f &^ d
}

func need(body []byte, n int, exact bool, what string) error {
	if exact && len(body) != n {
		return fmt.Errorf("%s: body is %d octets, want exactly %d", what, len(body), n)
	}
	if len(body) < n {
		return fmt.Errorf("%s: body is %d octets, want at least %d", what, len(body), n)
	}
	return nil
}

// DecodeBody parses the variable part of a packet of type t.
func DecodeBody(t byte, body []byte) (Pkt, error) {
	p := Pkt{Type: t}
	be := binary.BigEndian
	var err error
	switch t {
	case ADVERTISE:
		if err = need(body, 3, true, "ADVERTISE"); err == nil {
			p.GwID, p.Duration = body[0], be.Uint16(body[1:])
		}
	case SEARCHGW:
		if err = need(body, 1, true, "SEARCHGW"); err == nil {
			p.Radius = body[0]
		}
	case GWINFO:
		if err = need(body, 1, false, "GWINFO"); err == nil {
			p.GwID, p.GwAddr = body[0], body[1:]
		}
	case AUTH:
		if err = need(body, 2, false, "AUTH"); err == nil {
			p.Reason = body[0]
			ml := int(body[1])
			if err = need(body, 2+ml, false, "AUTH method"); err == nil {
				p.Method, p.Data = string(body[2:2+ml]), body[2+ml:]
			}
		}
	case CONNECT:
		if err = need(body, 5, false, "CONNECT"); err == nil { // client ID is 1-23 octets
			setFlags(&p, body[0])
			p.ProtocolID, p.Duration, p.ClientID = body[1], be.Uint16(body[2:4]), body[4:]
		}
	case CONNACK, WILLTOPICRESP, WILLMSGRESP:
		if err = need(body, 1, true, TypeName(t)); err == nil {
			p.RC = body[0]
		}
	case WILLTOPICREQ, WILLMSGREQ, PINGRESP:
		err = need(body, 0, true, TypeName(t))
	case WILLTOPIC, WILLTOPICUPD:
		if len(body) == 0 {
			p.EmptyForm = true
		} else if err = need(body, 2, false, TypeName(t)); err == nil {
			setFlags(&p, body[0])
			p.TopicName = string(body[1:])
		}
	case WILLMSG, WILLMSGUPD:
		p.Data = body
	case REGISTER:
		if err = need(body, 5, false, "REGISTER"); err == nil {
			p.TopicID, p.MsgID, p.TopicName = be.Uint16(body[0:2]), be.Uint16(body[2:4]), string(body[4:])
		}
	case REGACK, PUBACK:
		if err = need(body, 5, true, TypeName(t)); err == nil {
			p.TopicID, p.MsgID, p.RC = be.Uint16(body[0:2]), be.Uint16(body[2:4]), body[4]
		}
	case PUBLISH:
		if err = need(body, 5, false, "PUBLISH"); err == nil {
			setFlags(&p, body[0])
			p.TopicID, p.MsgID, p.Data = be.Uint16(body[1:3]), be.Uint16(body[3:5]), body[5:]
		}
	case PUBCOMP, PUBREC, PUBREL, UNSUBACK:
		if err = need(body, 2, true, TypeName(t)); err == nil {
			p.MsgID = be.Uint16(body)
		}
	case SUBSCRIBE, UNSUBSCRIBE:
		if err = need(body, 4, false, TypeName(t)); err == nil {
			setFlags(&p, body[0])
			p.MsgID = be.Uint16(body[1:3])
			switch p.TIT {
			case TITNormal:
				p.TopicName = string(body[3:])
			case TITPredefined, TITShort:
				if err = need(body, 5, true, TypeName(t)+" with topic ID"); err == nil {
					p.TopicID = be.Uint16(body[3:5])
				}
			default:
				err = fmt.Errorf("%s: reserved topic-ID type 3", TypeName(t))
			}
		}
	case SUBACK:
		if err = need(body, 6, true, "SUBACK"); err == nil {
			setFlags(&p, body[0])
			p.TopicID, p.MsgID, p.RC = be.Uint16(body[1:3]), be.Uint16(body[3:5]), body[5]
		}
	case PINGREQ:
		p.ClientID = body
	case DISCONNECT:
		switch len(body) {
		case 0:
			p.NoDuration = true
		case 2:
			p.Duration = be.Uint16(body)
		default:
			err = fmt.Errorf("DISCONNECT: body is %d octets, want 0 or 2", len(body))
		}
	default:
		err = fmt.Errorf("unknown packet type 0x%02x", t)
	}
	return p, err
}

// Direction tables (spec 5.4.x "sent by ...").
var fromGateway = map[byte]bool{ADVERTISE: true, GWINFO: true, CONNACK: true, WILLTOPICREQ: true,
	WILLMSGREQ: true, REGISTER: true, REGACK: true, PUBLISH: true, PUBACK: true, PUBCOMP: true,
	PUBREC: true, PUBREL: true, SUBACK: true, UNSUBACK: true, PINGREQ: true, PINGRESP: true,
	DISCONNECT: true, WILLTOPICRESP: true, WILLMSGRESP: true}
var fromClient = map[byte]bool{SEARCHGW: true, GWINFO: true, AUTH: true, CONNECT: true, WILLTOPIC: true,
	WILLMSG: true, REGISTER: true, REGACK: true, PUBLISH: true, PUBACK: true, PUBCOMP: true,
	PUBREC: true, PUBREL: true, SUBSCRIBE: true, UNSUBSCRIBE: true, PINGREQ: true, PINGRESP: true,
	DISCONNECT: true, WILLTOPICUPD: true, WILLMSGUPD: true}

func GatewayMaySend(t byte) bool { return fromGateway[t] }
func ClientMaySend(t byte) bool  { return fromClient[t] }

// ShortName / ShortID: 2-octet short topic names are carried in the TopicId field.
func ShortName(id uint16) string { return string([]byte{byte(id >> 8), byte(id)}) }
func ShortID(name string) uint16 { return uint16(name[0])<<8 | uint16(name[1]) }

// PlainAuth builds SASL PLAIN data: authzid NUL authcid NUL passwd.
func PlainAuth(user string, pass []byte) []byte {
	b := append([]byte{0}, user...)
	b = append(b, 0)
	return append(b, pass...)
}
