// Package vf is the small framework shared by all property checks: it runs a
// property (generator + executable oracle) under rapid, optionally inside a
// testing/synctest bubble, filters violations that are listed as known
// findings, writes the minimal failing case as a replay file, and records what
// the run covered (evaluations, distinct non-trivial cases, label histogram,
// samples) for the driver to merge into /verif/evidence/<ID>.json.
package vf

import (
	"encoding/binary"
	"encoding/json"
	"flag"
	"fmt"
	"hash/fnv"
	"os"
	"regexp"
	"runtime"
	"runtime/debug"
	"sort"
	"strconv"
	"strings"
	"sync"
	"sync/atomic"
	"testing"
	"testing/synctest"
	"time"

	"pgregory.net/rapid"
)

var replayFlag = flag.String("verif.replay", "", "comma-separated replay files: run these cases only, bypassing rapid")

// Violation is one failed oracle judgement. Kind names the sub-oracle and the
// discriminating facts (it is what known_findings.json matches on); Detail is
// free text for humans.
type Violation struct {
	Kind   string `json:"kind"`
	Detail string `json:"detail"`
}

func V(kind, format string, a ...any) Violation {
	return Violation{Kind: kind, Detail: fmt.Sprintf(format, a...)}
}

// Result is what running one case yields.
type Result struct {
	Violations []Violation
	NonTrivial bool     // by the property's stated rule
	Labels     []string // classification labels for the histogram
	Skip       bool     // the case turned out to be outside the property's domain
}

func (r *Result) Add(v ...Violation)  { r.Violations = append(r.Violations, v...) }
func (r *Result) Label(l ...string)   { r.Labels = append(r.Labels, l...) }
func (r *Result) Fail(kind, f string, a ...any) { r.Violations = append(r.Violations, V(kind, f, a...)) }

type Prop[C any] struct {
	ID          string
	Name        string // sub-check name (a property may have several sub-checks)
	Rule        string
	Assumptions []string
	Gen         func(*rapid.T) C
	// Exhaustive, when set, enumerates a finite sub-space completely before the
	// random part.
	Exhaustive func(tier string, yield func(C))
	Run        func(c C) Result
	// Key normalises a case for the distinctness count (default: the case).
	Key func(c C) any
	// Bubble runs every case inside a testing/synctest bubble (virtual time).
	Bubble bool
	// MarkCurrent writes the case to $VERIF_OUT.current before running it, so
	// that the driver can attribute a process death to it.
	MarkCurrent bool
	// DeadlockIsViolation: when a case stops making progress because goroutines of the code under
	// test are blocked on each other inside the bubble (on a mutex, so that the virtual clock cannot
	// advance either), report that as a violation of this property instead of hanging until the
	// shard's deadline. See deadlockWatch.
	DeadlockIsViolation bool
}

type knownFinding struct {
	Property    string `json:"property"`
	Kind        string `json:"kind"`  // exact kind, or
	Match       string `json:"match"` // regexp over kind
	Status      string `json:"status"`
	Description string `json:"description"`
	re          *regexp.Regexp
}

var (
	knownOnce sync.Once
	known     []knownFinding
)

func loadKnown() {
	knownOnce.Do(func() {
		path := os.Getenv("VERIF_KNOWN")
		if path == "" {
			path = "/verif/known_findings.json"
		}
		b, err := os.ReadFile(path)
		if err != nil {
			return
		}
		var doc struct {
			Findings []knownFinding `json:"findings"`
		}
		if err := json.Unmarshal(b, &doc); err != nil {
			panic("known findings file unreadable: " + err.Error())
		}
		for _, k := range doc.Findings {
			if k.Status != "known" {
				continue // "fixed" entries suppress nothing
			}
			if k.Match != "" {
				k.re = regexp.MustCompile("^(?:" + k.Match + ")$")
			}
			known = append(known, k)
		}
	})
}

// IsKnown reports whether a violation kind of property id is a listed finding.
func IsKnown(id, kind string) bool {
	loadKnown()
	for _, k := range known {
		if k.Property != id {
			continue
		}
		if k.re != nil {
			if k.re.MatchString(kind) {
				return true
			}
		} else if k.Kind == kind {
			return true
		}
	}
	return false
}

type replayFile struct {
	Property  string          `json:"property"`
	Name      string          `json:"name,omitempty"`
	Case      json.RawMessage `json:"case"`
	Violation *Violation      `json:"violation,omitempty"`
	Note      string          `json:"note,omitempty"`
	// Repeat > 1: the failure depends on the goroutine schedule; the replay runs
	// the case that many times and reports the first run that violates.
	Repeat int `json:"repeat,omitempty"`
}

type shard struct {
	mu            sync.Mutex
	Property      string         `json:"property"`
	Name          string         `json:"name"`
	Rule          string         `json:"rule"`
	Assumptions   []string       `json:"assumptions"`
	Evaluations   int            `json:"evaluations"`
	NonTrivial    int            `json:"nontrivial_evaluations"`
	Skipped       int            `json:"skipped"`
	Exhaustive    int            `json:"exhaustive_cases"`
	ExhaustiveNT  int            `json:"exhaustive_nontrivial"`
	ExhaustiveAll bool           `json:"exhaustive_complete"`
	Labels        map[string]int `json:"labels"`
	ExcludedKnown map[string]int `json:"excluded_known"`
	Samples       []any          `json:"samples"`
	Violations    int            `json:"violations"`
	Extra         map[string]int `json:"extra"`
	hashes        map[uint64]struct{}
	sampleByLabel map[string]int
}

var extraMu sync.Mutex
var extra = map[string]int{}

// Count adds n to a free-form coverage counter reported in the evidence.
func Count(key string, n int) {
	extraMu.Lock()
	extra[key] += n
	extraMu.Unlock()
}

func hashOf(v any) uint64 {
	b, _ := json.Marshal(v)
	h := fnv.New64a()
	h.Write(b)
	return h.Sum64()
}

func (s *shard) record(c any, key func() any, r Result, exh bool) {
	s.mu.Lock()
	defer s.mu.Unlock()
	s.Evaluations++
	if r.Skip {
		s.Skipped++
		return
	}
	sort.Strings(r.Labels)
	for _, l := range r.Labels {
		s.Labels[l]++
	}
	if r.NonTrivial {
		s.NonTrivial++
		if exh {
			s.ExhaustiveNT++ // enumerated cases are distinct by construction
		} else {
			s.hashes[hashOf(key())] = struct{}{}
		}
	}
	// keep up to 2 samples per label combination, non-trivial preferred, 8 overall
	lk := strings.Join(r.Labels, ",")
	if !r.NonTrivial {
		lk = "trivial:" + lk
	}
	if len(s.Samples) < 8 && s.sampleByLabel[lk] < 1 && (r.NonTrivial || len(s.Samples) < 2) {
		s.sampleByLabel[lk]++
		b, _ := json.Marshal(c)
		if len(b) > 6000 {
			b, _ = json.Marshal(map[string]any{"truncated_case_json": string(b[:6000])})
		}
		s.Samples = append(s.Samples, map[string]any{"labels": r.Labels, "nontrivial": r.NonTrivial, "case": json.RawMessage(b)})
	}
}

func (s *shard) write() {
	out := os.Getenv("VERIF_OUT")
	if out == "" {
		return
	}
	s.mu.Lock()
	defer s.mu.Unlock()
	extraMu.Lock()
	s.Extra = map[string]int{}
	for k, v := range extra {
		s.Extra[k] = v
	}
	extraMu.Unlock()
	b, _ := json.MarshalIndent(s, "", " ")
	_ = os.WriteFile(out, b, 0o644)
	hb := make([]byte, 0, 8*len(s.hashes))
	for h := range s.hashes {
		hb = binary.LittleEndian.AppendUint64(hb, h)
	}
	_ = os.WriteFile(out+".hashes", hb, 0o644)
}

func writeReplay(id, name string, c any, v *Violation, path string) {
	if path == "" {
		return
	}
	cb, _ := json.Marshal(c)
	b, _ := json.MarshalIndent(replayFile{Property: id, Name: name, Case: cb, Violation: v}, "", " ")
	_ = os.WriteFile(path, b, 0o644)
}

// WriteReplayFile writes a failing case as a replay file (for checks which do not run under
// vf.Check, such as native fuzz targets).
func WriteReplayFile(id, name string, c any, v *Violation, path string) { writeReplay(id, name, c, v, path) }

func runCase[C any](t *testing.T, p *Prop[C], c C) (res Result) {
	if !p.Bubble {
		return p.Run(c)
	}
	// When goroutines started by the case are still (durably) blocked after its
	// root function returned, synctest.Test panics with "deadlock: ...": that is
	// a verdict ("some goroutine can never finish"), not a harness failure.
	defer func() {
		if r := recover(); r != nil {
			msg := fmt.Sprint(r)
			if !strings.HasPrefix(msg, "deadlock:") {
				panic(r)
			}
			res.Violations = append(res.Violations, V("goroutines-blocked-forever", "%s\n%s", msg, blockedGoroutines()))
		}
	}()
	synctest.Test(t, func(t *testing.T) {
		res = p.Run(c)
	})
	return res
}

// blockedGoroutines lists goroutines that have a frame of the code under test.
func blockedGoroutines() string {
	buf := make([]byte, 1<<20)
	n := runtime.Stack(buf, true)
	var out []string
	for _, g := range strings.Split(string(buf[:n]), "\n\n") {
		if !strings.Contains(g, "github.com/energomonitor/bisquitt/") || !strings.Contains(g, "synctest bubble") {
			continue
		}
		lines := strings.Split(g, "\n")
		if len(lines) > 9 {
			lines = lines[:9]
		}
		out = append(out, strings.Join(lines, "\n"))
		if len(out) >= 6 {
			break
		}
	}
	if len(out) == 0 {
		// none of the code under test: a goroutine of the harness itself is stuck; show them all
		for _, g := range strings.Split(string(buf[:n]), "\n\n") {
			if strings.Contains(g, "synctest bubble") {
				lines := strings.Split(g, "\n")
				if len(lines) > 12 {
					lines = lines[:12]
				}
				out = append(out, strings.Join(lines, "\n"))
			}
		}
	}
	return strings.Join(out, "\n\n")
}

// deadlockWatch runs outside every bubble. A bubble in which some goroutine is blocked on a
// sync.Mutex (not a durable block) while all the others are blocked too can never continue: nothing
// is runnable, and the virtual clock does not advance either. That state is recognised from two
// goroutine dumps taken seconds apart: the same goroutines, none running or runnable, in the same
// states, at least one of them of the code under test blocked non-durably. Scheduling delays on a
// busy machine cannot produce it (a goroutine waiting for a CPU is "runnable").
func deadlockWatch(started *atomic.Int64, report func(detail string)) {
	snapshot := func() (sig string, stuck bool, detail string) {
		buf := make([]byte, 4<<20)
		n := runtime.Stack(buf, true)
		var sigs, shown []string
		nondurable := false
		for _, g := range strings.Split(string(buf[:n]), "\n\n") {
			nl := strings.IndexByte(g, '\n')
			if nl < 0 || !strings.Contains(g[:nl], "synctest bubble") {
				continue
			}
			head := g[:nl]
			if strings.Contains(head, "[running") || strings.Contains(head, "[runnable") || strings.Contains(head, "[syscall") {
				return "", false, ""
			}
			sigs = append(sigs, head[:strings.IndexByte(head, ']')+1])
			if !strings.Contains(head, "(durable)") && strings.Contains(g, "github.com/energomonitor/bisquitt/") {
				nondurable = true
				lines := strings.Split(g, "\n")
				if len(lines) > 14 {
					lines = lines[:14]
				}
				shown = append(shown, strings.Join(lines, "\n"))
			}
		}
		sort.Strings(sigs)
		return strings.Join(sigs, ";"), nondurable && len(sigs) > 0, strings.Join(shown, "\n\n")
	}
	for {
		time.Sleep(2 * time.Second)
		t0 := started.Load()
		if t0 == 0 || time.Since(time.Unix(0, t0)) < 8*time.Second {
			continue
		}
		s1, stuck1, _ := snapshot()
		if !stuck1 {
			continue
		}
		time.Sleep(4 * time.Second)
		if started.Load() != t0 {
			continue
		}
		s2, stuck2, detail := snapshot()
		if stuck2 && s1 == s2 {
			report(detail)
			return
		}
	}
}

// Check runs the property. In replay mode it runs exactly the given cases.
func Check[C any](t *testing.T, p Prop[C]) {
	loadKnown()
	key := func(c C) any {
		if p.Key != nil {
			return p.Key(c)
		}
		return c
	}
	if *replayFlag != "" {
		for _, path := range strings.Split(*replayFlag, ",") {
			b, err := os.ReadFile(path)
			if err != nil {
				t.Fatalf("replay: %v", err)
			}
			var rf replayFile
			if err := json.Unmarshal(b, &rf); err != nil {
				t.Fatalf("replay %s: %v", path, err)
			}
			if rf.Property != p.ID || (rf.Name != "" && rf.Name != p.Name) {
				continue
			}
			var c C
			if err := json.Unmarshal(rf.Case, &c); err != nil {
				t.Fatalf("replay %s: case does not decode: %v", path, err)
			}
			n := 0
			var started atomic.Int64
			if p.DeadlockIsViolation && p.Bubble {
				go deadlockWatch(&started, func(detail string) {
					fmt.Printf("REPLAY-VIOLATION property=%s file=%s kind=goroutines-deadlocked the case stopped for good: goroutines of the code under test are blocked on each other\n%s\n", p.ID, path, detail)
					os.Exit(1)
				})
			}
			for run := 0; run < max(1, rf.Repeat) && n == 0; run++ {
				started.Store(time.Now().UnixNano())
				res := runCase(t, &p, c)
				started.Store(0)
				for _, v := range res.Violations {
					if IsKnown(p.ID, v.Kind) {
						if run == 0 {
							fmt.Printf("REPLAY-KNOWN property=%s kind=%s %s\n", p.ID, v.Kind, v.Detail)
						}
						continue
					}
					n++
					fmt.Printf("REPLAY-VIOLATION property=%s file=%s run=%d kind=%s %s\n", p.ID, path, run+1, v.Kind, v.Detail)
				}
			}
			if n > 0 {
				t.Errorf("replay %s: %d violation(s)", path, n)
			} else {
				fmt.Printf("REPLAY-OK property=%s file=%s\n", p.ID, path)
			}
		}
		return
	}

	s := &shard{Property: p.ID, Name: p.Name, Rule: p.Rule, Assumptions: p.Assumptions,
		Labels: map[string]int{}, ExcludedKnown: map[string]int{}, hashes: map[uint64]struct{}{},
		sampleByLabel: map[string]int{}}
	defer s.write()
	replayOut := os.Getenv("VERIF_REPLAY_OUT")
	current := ""
	if out := os.Getenv("VERIF_OUT"); out != "" && (p.MarkCurrent || os.Getenv("VERIF_MARK_CURRENT") != "") {
		current = out + ".current"
	}

	var caseStarted atomic.Int64
	var curCase atomic.Value
	if p.DeadlockIsViolation && p.Bubble {
		go deadlockWatch(&caseStarted, func(detail string) {
			v := V("goroutines-deadlocked", "the case stopped for good: goroutines of the code under test are blocked on each other (nothing is runnable, the virtual clock cannot advance)\n%s", detail)
			if !IsKnown(p.ID, v.Kind) {
				if c, ok := curCase.Load().(C); ok {
					writeReplay(p.ID, p.Name, c, &v, replayOut)
				}
				s.mu.Lock()
				s.Violations++
				s.mu.Unlock()
				s.write()
				fmt.Printf("violates %s: kind=%s %s\n", p.ID, v.Kind, v.Detail)
				os.Exit(1)
			}
		})
	}
	one := func(c C, exh bool) *Violation {
		if current != "" {
			writeReplay(p.ID, p.Name, c, nil, current)
		}
		curCase.Store(c)
		caseStarted.Store(time.Now().UnixNano())
		defer caseStarted.Store(0)
		res := runCase(t, &p, c)
		s.record(c, func() any { return key(c) }, res, exh)
		for i := range res.Violations {
			v := res.Violations[i]
			if IsKnown(p.ID, v.Kind) {
				s.mu.Lock()
				s.ExcludedKnown[v.Kind]++
				s.mu.Unlock()
				continue
			}
			s.mu.Lock()
			s.Violations++
			s.mu.Unlock()
			writeReplay(p.ID, p.Name, c, &v, replayOut)
			return &v
		}
		return nil
	}

	if p.Exhaustive != nil {
		tier := os.Getenv("VERIF_TIER")
		failed := false
		// the enumeration is split over the shard processes (round robin)
		shardIdx, _ := strconv.Atoi(os.Getenv("VERIF_SHARD"))
		nShards, _ := strconv.Atoi(os.Getenv("VERIF_NSHARDS"))
		if nShards < 1 {
			nShards = 1
		}
		idx := -1
		p.Exhaustive(tier, func(c C) {
			idx++
			if failed || idx%nShards != shardIdx {
				return
			}
			s.Exhaustive++
			if v := one(c, true); v != nil {
				failed = true
				t.Errorf("exhaustive case violates %s: kind=%s %s", p.ID, v.Kind, v.Detail)
			}
		})
		if failed {
			return
		}
		s.ExhaustiveAll = true
	}
	if p.Gen == nil {
		return
	}
	rapid.Check(t, func(rt *rapid.T) {
		c := p.Gen(rt)
		if v := one(c, false); v != nil {
			rt.Fatalf("violates %s: kind=%s %s", p.ID, v.Kind, v.Detail)
		}
	})
}

// Recover turns a panic in f into a violation (for synchronous code only).
func Recover(kind string, f func()) (v *Violation) {
	defer func() {
		if r := recover(); r != nil {
			st := string(debug.Stack())
			if len(st) > 1500 {
				st = st[:1500]
			}
			vv := V(kind, "panic: %v\n%s", r, st)
			v = &vv
		}
	}()
	f()
	return nil
}

// Tier returns the tier of this run ("quick" unless VERIF_TIER=thorough).
func Tier() string {
	if os.Getenv("VERIF_TIER") == "thorough" {
		return "thorough"
	}
	return "quick"
}

// Payload is a compact, JSON-friendly description of a byte string: N bytes of
// a fixed pattern seeded by Fill, or explicit bytes when Hex is set.
type Payload struct {
	N    int    `json:"n"`
	Fill byte   `json:"fill"`
	Hex  []byte `json:"hex,omitempty"`
}

func (p Payload) Bytes() []byte {
	if p.Hex != nil {
		return p.Hex
	}
	b := make([]byte, p.N)
	for i := range b {
		b[i] = byte(i*7) + p.Fill
	}
	return b
}
