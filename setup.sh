#!/bin/sh
# Offline setup: compile every harness test binary once so that the first check
# does not pay for the standard library build. Nothing is fetched.
set -e
cd "$(dirname "$0")/harness"
export GOFLAGS=-mod=mod GOPROXY=off GOSUMDB=off GOTOOLCHAIN=local
mkdir -p ../.build
for d in props/*/; do
  n=$(basename "$d")
  go1.26.8 test -c -tags verif -o ../.build/"$n".test ./props/"$n" >/dev/null
done
echo setup ok
