#!/usr/bin/env python3
"""Regenerates /verif/MANIFEST.json from checks_config.py (single source of truth)."""
import json, os, subprocess, sys
ROOT = os.path.dirname(os.path.dirname(os.path.abspath(__file__)))
sys.path.insert(0, ROOT)
from checks_config import CHECKS, META, NOT_APPLICABLE  # noqa

props = [json.loads(l) for l in open(os.path.join(ROOT, "properties.jsonl"))]
ids = [p["id"] for p in props]
hooks_commits = subprocess.run(["git", "-C", "/repo", "log", "--format=%H", "--grep=^verif:"], stdout=subprocess.PIPE, text=True).stdout.split()
checks = []
for pid in ids:
    if pid not in CHECKS:
        continue
    m = META[pid]
    checks.append({
        "property_id": pid,
        "quick_cmd": "./check %s --tier quick" % pid,
        "thorough_cmd": "./check %s --tier thorough" % pid,
        "evidence_file": "/verif/evidence/%s.json" % pid,
        "replay_cmd_template": "./check %s --replay {path}" % pid,
        "engine": "rapid+harness",
        "level_claimed": {"category": CHECKS[pid].get("level", "exploration"), "text": m["text"], "design_ref": m.get("design_ref", "DESIGN.md section 3, " + pid)},
        "level_note": m["note"],
        "technique": m["technique"],
    })
na = [{"property_id": pid, "reason": NOT_APPLICABLE.get(pid, "check not built yet (work in progress in this session); not claimed until it is")} for pid in ids if pid not in CHECKS]
manifest = {
    "version": 1,
    "setup_cmd": "./setup.sh",
    "hooks": {
        "guard": "verif",
        "enable": "go build tag: every harness binary is built with `-tags verif` (hooks live in new files gateway/verif_hooks.go, client/verif_hooks.go and transactions/verif_hooks.go guarded by //go:build verif)",
        "baseline_off_cmd": "cd /repo && go test -vet=off -count=1 -timeout 25m ./...",
        "source_commits": hooks_commits,
        "add_only": True,
    },
    "engines": [{"name": "rapid+harness", "path": "/verif/harness", "serves_properties": [c["property_id"] for c in checks],
                 "kind_free_text": "Go module (go1.26.8): pgregory.net/rapid v1.3.0 property-based generation and shrinking; testing/synctest virtual time; in-memory net.Conn links; independent reference codecs (snref, mqttref) and session models as oracles; python driver ./check shards, merges evidence, handles replays and known findings"}],
    "checks": checks,
    "not_applicable": na,
    "notes": "All checks are decided by generated-input search against an explicit oracle (property-based testing / fuzzing). See DESIGN.md. Known findings: known_findings.json.",
}
json.dump(manifest, open(os.path.join(ROOT, "MANIFEST.json"), "w"), indent=1)
print("MANIFEST.json: %d checks, %d not_applicable" % (len(checks), len(na)))
