#!/bin/sh
# The only procedure that refreshes the committed evidence files: quick tier, seed 1,
# on a clean /repo working tree, from an empty build directory (as after a fresh
# restore). Fails unless every check exits 0 without a VIOLATION line and its
# evidence validates against the schema with violations = 0.
cd "$(dirname "$0")/.." || exit 2
if [ -n "$(git -C /repo status --porcelain)" ]; then
  echo "refusing: /repo has uncommitted changes (mutant left behind?)"; exit 2
fi
unset VERIF_EVIDENCE_DIR VERIF_FOUND_DIR
export VERIF_SEED=1 VERIF_TIER=quick GOPROXY=off
rm -rf /verif/.build
./setup.sh || exit 2
bad=0
for id in $(jq -r '.checks[].property_id' MANIFEST.json); do
  rm -f evidence/$id.json
  out=$(./check $id --tier quick 2>&1); rc=$?
  echo "$out" | grep -E '^(OK|KNOWN-FINDING|VIOLATION|INCONCLUSIVE)' | cut -c1-160
  if [ $rc -ne 0 ] || echo "$out" | grep -q '^VIOLATION'; then bad=1; echo "NOT-QUIET $id rc=$rc"; fi
done
PY=python3-vt; command -v $PY >/dev/null || PY=python3
$PY - <<'PYEOF' || bad=1
import json, glob, sys
try:
    import jsonschema
    schema = json.load(open('/root/.vp/EVIDENCE.schema.json'))
except Exception:
    jsonschema = None
ids = [c['property_id'] for c in json.load(open('/verif/MANIFEST.json'))['checks']]
rc = 0
for i in ids:
    d = json.load(open('/verif/evidence/%s.json' % i))
    if jsonschema:
        jsonschema.validate(d, schema)
    c = d['coverage']
    if d.get('violations') or d['seed'] != 1 or d['tier'] != 'quick' or c['distinct_nontrivial'] < 2 or not c['samples']:
        print('BAD evidence', i, d.get('violations'), d['seed'], d['tier'], c['distinct_nontrivial']); rc = 1
print('evidence files checked:', len(ids))
sys.exit(rc)
PYEOF
exit $bad
