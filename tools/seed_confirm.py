#!/usr/bin/env python3
"""Confirm a seeded change delivered by a sub-agent, in a scratch worktree of /repo:
  (a) the project builds and its existing suite passes with the change,
  (b) the demonstration fails with the change,
  (c) the demonstration passes without it.
On success the change is stored as /verif/seeded/<name>/ (patch.diff, demo/, notes.md, meta.json).

  tools/seed_confirm.py /tmp/seed/out-C07/A C07-A --property C07 [--pkgdir gateway] [--skip-suite]
"""
import argparse, glob, json, os, re, shutil, subprocess, sys, tempfile, time

ROOT = os.path.dirname(os.path.dirname(os.path.abspath(__file__)))
ENV = dict(os.environ, GOFLAGS="-mod=mod", GOPROXY="off", GOSUMDB="off")
PKGDIRS = {"gateway": "gateway", "client": "client", "packets1": "packets1", "packets": "packets", "topics": "topics",
           "transactions": "transactions", "util": "util"}


def sh(cmd, cwd, timeout=1800):
    p = subprocess.run(cmd, cwd=cwd, env=ENV, stdout=subprocess.PIPE, stderr=subprocess.STDOUT, text=True, errors="replace", timeout=timeout)
    return p.returncode, p.stdout


def main():
    ap = argparse.ArgumentParser()
    ap.add_argument("src")
    ap.add_argument("name")
    ap.add_argument("--property", required=True)
    ap.add_argument("--pkgdir")
    ap.add_argument("--skip-suite", action="store_true")
    ap.add_argument("--needs", default="")
    a = ap.parse_args()
    patch = os.path.join(a.src, "patch.diff")
    demos = [f for f in glob.glob(os.path.join(a.src, "demo", "**", "*"), recursive=True) if os.path.isfile(f)]
    gofiles = [f for f in demos if f.endswith(".go")]
    if not os.path.exists(patch) or not gofiles:
        print("missing patch or demo")
        return 2
    # where each demo file goes: its sub-directory under demo/ if it has one, else the directory of its package
    target = {}
    for f in demos:
        rel = os.path.relpath(f, os.path.join(a.src, "demo"))
        if os.sep in rel:
            target[f] = os.path.dirname(rel)
        elif a.pkgdir:
            target[f] = a.pkgdir
        elif f.endswith(".go"):
            pkg = re.search(r"^package (\w+)", open(f).read(), re.M).group(1)
            d = PKGDIRS.get(pkg.replace("_test", ""))
            if not d:
                print("cannot infer the directory of %s (package %s); use --pkgdir" % (f, pkg))
                return 2
            target[f] = d
    for f in demos:
        target.setdefault(f, sorted(set(target.values()))[0])
    pkgdirs = sorted(set(target.values()))
    pkgdir = pkgdirs[0]
    tests = sorted(set(re.findall(r"^func (Test\w+)\(", "\n".join(open(f).read() for f in gofiles if f.endswith("_test.go")), re.M)))
    base = tempfile.mkdtemp(prefix="seedconfirm.", dir="/tmp")
    wt = os.path.join(base, "wt")
    subprocess.run(["git", "-C", "/repo", "worktree", "add", "-q", "--detach", wt, "HEAD"], check=True)
    head = subprocess.run(["git", "-C", "/repo", "rev-parse", "HEAD"], stdout=subprocess.PIPE, text=True).stdout.strip()
    ran = []
    ok = False
    try:
        rc, out = sh(["git", "apply", patch], wt)
        if rc:
            print("patch does not apply:", out)
            return 1
        touched = subprocess.run(["git", "-C", wt, "diff", "--name-only"], stdout=subprocess.PIPE, text=True).stdout.split()
        if any(t.endswith("_test.go") or "verif_hooks" in t or t in ("go.mod", "go.sum") for t in touched):
            print("patch touches test/hook/module files:", touched)
            return 1
        rc, out = sh(["go", "build", "./..."], wt)
        ran.append(dict(cmd="go build ./... (with the change)", rc=rc))
        if rc:
            print("does not build:", out[-2000:])
            return 1
        if not a.skip_suite:
            t0 = time.time()
            rc, out = sh(["go", "test", "-vet=off", "-count=1", "-timeout", "25m", "./..."], wt)
            if rc:  # real-time tests on a busy machine: retry the failing packages once
                failed = re.findall(r"^FAIL\s+(\S+)", out, re.M)
                rc2, out2 = sh(["go", "test", "-vet=off", "-count=1", "-timeout", "25m"] + (failed or ["./..."]), wt)
                ran.append(dict(cmd="existing suite with the change: first run had failures in %s; re-run of those packages" % failed, rc=rc2))
                if rc2:
                    print("SUITE FAILS with the change:\n", out2[-3000:])
                    return 1
            else:
                ran.append(dict(cmd="go test -vet=off -count=1 -timeout 25m ./... (with the change)", rc=0, wall_s=round(time.time() - t0)))
        for f in demos:
            dst = os.path.join(wt, target[f], os.path.basename(f))
            os.makedirs(os.path.dirname(dst), exist_ok=True)
            shutil.copy(f, dst)
        if tests:
            democmd = ["go", "test", "-vet=off", "-count=1", "-timeout", "10m", "-run", "^(%s)$" % "|".join(tests)] + ["./" + d for d in pkgdirs]
        else:
            democmd = ["go", "run", "./" + pkgdir]
        rc_with, out_with = sh(democmd, wt)
        ran.append(dict(cmd=" ".join(democmd) + " (with the change)", rc=rc_with))
        rc, out = sh(["git", "apply", "-R", patch], wt)
        if rc:
            print("cannot revert", out)
            return 1
        rc_without, out_without = sh(democmd, wt)
        ran.append(dict(cmd=" ".join(democmd) + " (without the change)", rc=rc_without))
        print("demo with change rc=%d, without rc=%d" % (rc_with, rc_without))
        if rc_with == 0 or rc_without != 0:
            print("NOT CONFIRMED\n--- with:\n%s\n--- without:\n%s" % (out_with[-2500:], out_without[-2500:]))
            return 1
        ok = True
        dst = os.path.join(ROOT, "seeded", a.name)
        shutil.rmtree(dst, ignore_errors=True)
        os.makedirs(os.path.join(dst, "demo"))
        shutil.copy(patch, os.path.join(dst, "patch.diff"))
        for f in demos:
            os.makedirs(os.path.join(dst, "demo", target[f]), exist_ok=True)
            shutil.copy(f, os.path.join(dst, "demo", target[f], os.path.basename(f)))
        if os.path.exists(os.path.join(a.src, "notes.md")):
            shutil.copy(os.path.join(a.src, "notes.md"), os.path.join(dst, "notes.md"))
        fails = [l for l in out_with.splitlines() if l.startswith("--- FAIL") or "panic:" in l][:6]
        meta = dict(id=a.name, breaks_property=a.property, base_commit=head, files_touched=touched,
                    demo_dirs=pkgdirs, demo_tests=tests, needs_to_manifest=a.needs, confirmed=ran,
                    demo_failure_with_change=fails, origin="independent sub-agent given only the property text and a scratch worktree")
        with open(os.path.join(dst, "meta.json"), "w") as f:
            json.dump(meta, f, indent=1)
        print("CONFIRMED ->", dst)
        return 0
    finally:
        subprocess.run(["git", "-C", "/repo", "worktree", "remove", "--force", wt])
        shutil.rmtree(base, ignore_errors=True)


if __name__ == "__main__":
    sys.exit(main())
