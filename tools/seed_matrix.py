#!/usr/bin/env python3
"""Run every seeded change under /verif/seeded against the check of the property it breaks
(quick tier, seeds 1 and 2; once with the regression replays, once with the generated search alone),
each in its own scratch worktree of /repo, and record the outcome in seeded/<name>/detection.json
and seeded/RESULTS.md.

  tools/seed_matrix.py [--jobs 3] [--only C07-A,C13-B] [--extra C26]
"""
import argparse, concurrent.futures as cf, glob, json, os, subprocess, sys, tempfile

ROOT = os.path.dirname(os.path.dirname(os.path.abspath(__file__)))


def run(name, extra):
    d = os.path.join(ROOT, "seeded", name)
    meta = json.load(open(os.path.join(d, "meta.json")))
    prop = meta["breaks_property"]
    extra = list(extra) + [x for x in meta.get("also_checks", []) if x not in extra]
    out = {}
    for label, flags in (("with_replays", []), ("generated_only", ["--no-replays"])):
        fd, tmp = tempfile.mkstemp(suffix=".json")
        os.close(fd)
        subprocess.run([sys.executable, os.path.join(ROOT, "tools", "seedtest.py"), os.path.join(d, "patch.diff"), prop] + extra +
                       ["--seeds", "1,2", "--json", tmp] + flags, stdout=subprocess.PIPE, stderr=subprocess.STDOUT)
        try:
            out[label] = json.load(open(tmp))
        except Exception:
            out[label] = []
        os.remove(tmp)
    head = subprocess.run(["git", "-C", ROOT, "rev-parse", "--short", "HEAD"], stdout=subprocess.PIPE, text=True).stdout.strip()
    out["verif_commit"] = head
    with open(os.path.join(d, "detection.json"), "w") as f:
        json.dump(out, f, indent=1)
    return name, out


def main():
    ap = argparse.ArgumentParser()
    ap.add_argument("--jobs", type=int, default=3)
    ap.add_argument("--only")
    ap.add_argument("--extra", default="")
    ap.add_argument("--report-only", action="store_true")
    a = ap.parse_args()
    names = sorted(os.path.basename(os.path.dirname(p)) for p in glob.glob(os.path.join(ROOT, "seeded", "*", "meta.json")))
    if a.only:
        names = [n for n in names if n in a.only.split(",")]
    extra = [x for x in a.extra.split(",") if x]
    if not a.report_only:
        with cf.ThreadPoolExecutor(max_workers=a.jobs) as ex:
            for name, out in ex.map(lambda n: run(n, extra), names):
                v = lambda rs: ",".join("%s:%s" % (r["check"], r["verdict"]) for r in rs)
                print(name, "| replays:", v(out["with_replays"]), "| generated only:", v(out["generated_only"]), flush=True)
    report()


def report():
    needs = {}
    try:
        needs = json.load(open(os.path.join(ROOT, "seeded", "needs.json")))
    except Exception:
        pass
    rows = []
    for p in sorted(glob.glob(os.path.join(ROOT, "seeded", "*", "meta.json"))):
        d = os.path.dirname(p)
        name = os.path.basename(d)
        meta = json.load(open(p))
        if needs.get(name) and meta.get("needs_to_manifest") != needs[name]:
            meta["needs_to_manifest"] = needs[name]
            with open(p, "w") as f:
                json.dump(meta, f, indent=1)
        det = {}
        if os.path.exists(os.path.join(d, "detection.json")):
            det = json.load(open(os.path.join(d, "detection.json")))

        def summ(rs):
            if not rs:
                return "not run"
            own = [r for r in rs if r["check"] == meta["breaks_property"]]
            caught = [r for r in own if r["verdict"] == "CAUGHT"]
            kinds = sorted(set(r["kind"] for r in caught))
            s = "%d/%d" % (len(caught), len(own))
            if kinds:
                s += " (" + "; ".join(kinds)[:110] + ")"
            others = sorted(set(r["check"] for r in rs if r["check"] != meta["breaks_property"] and r["verdict"] == "CAUGHT"))
            if others:
                s += " also " + ",".join(others)
            return s
        rows.append((name, meta["breaks_property"], ", ".join(meta.get("files_touched", [])), summ(det.get("with_replays")), summ(det.get("generated_only")),
                     meta.get("needs_to_manifest", "")))
    with open(os.path.join(ROOT, "seeded", "RESULTS.md"), "w") as f:
        f.write("# Seeded changes and which check catches them\n\n"
                "Each change was written by an independent sub-agent that saw only the property text and a scratch worktree; it compiles, passes the\n"
                "181 pinned tests, and comes with a demonstration that fails with it and passes without it (confirmed by `tools/seed_confirm.py`).\n"
                "Columns: runs of the property's own check that raised the alarm, out of the quick-tier runs at seeds 1 and 2 against a scratch\n"
                "worktree with the change applied (`tools/seed_matrix.py`), with the regression replays and with the generated search alone.\n\n"
                "| change | property | files | caught (with replays) | caught (generated search only) | needs |\n|---|---|---|---|---|---|\n")
        for r in rows:
            f.write("| %s | %s | %s | %s | %s | %s |\n" % tuple(x.replace("|", "\\|") for x in r))
    print("wrote seeded/RESULTS.md (%d changes)" % len(rows))


if __name__ == "__main__":
    main()
