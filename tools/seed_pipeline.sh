#!/bin/sh
# tools/seed_pipeline.sh C07 [extra check ids...]: confirm /tmp/seed/out-C07/{A,B}, then run the
# property's own check (quick tier, seeds 1 and 2) against each confirmed change in a scratch worktree.
id=$1; shift
cd "$(dirname "$0")/.."
for v in A B; do
  src=/tmp/seed/out-$id/$v
  [ -f $src/patch.diff ] || continue
  name=$id-$v
  if [ ! -f seeded/$name/meta.json ]; then
    python3 tools/seed_confirm.py $src $name --property $id > /tmp/seed/confirm-$name.log 2>&1 || { echo "$name NOT-CONFIRMED (see /tmp/seed/confirm-$name.log)"; continue; }
  fi
  python3 tools/seedtest.py seeded/$name/patch.diff --seeds 1,2 --json seeded/$name/detection.json $id "$@" 2>&1 | grep -E "^(CAUGHT|quiet|INCONCLUSIVE|PATCH)" | sed "s/^/$name: /"
done
