#!/bin/sh
# tools/seed_pipeline.sh C07 [extra check ids...]: confirm $SEED_ROOT/out-C07/{A,B} (default /tmp/seed),
# then run the property's own check (quick tier, seeds 1 and 2) against each confirmed change in a
# scratch worktree. SEED_NAMES="C D" stores A and B under those letters (second round).
id=$1; shift
root=${SEED_ROOT:-/tmp/seed}
set -- $id "$@"
names=${SEED_NAMES:-A B}
na=$(echo $names | cut -d' ' -f1); nb=$(echo $names | cut -d' ' -f2)
cd "$(dirname "$0")/.."
for v in A B; do
  src=$root/out-$id/$v
  [ -f $src/patch.diff ] || continue
  if [ $v = A ]; then name=$id-$na; else name=$id-$nb; fi
  if [ ! -f seeded/$name/meta.json ]; then
    python3 tools/seed_confirm.py $src $name --property $id > $root/confirm-$name.log 2>&1 || { echo "$name NOT-CONFIRMED (see $root/confirm-$name.log)"; continue; }
  fi
  python3 tools/seedtest.py seeded/$name/patch.diff --seeds 1,2 --json $root/detect-$name.json "$@" 2>&1 | grep -E "^(CAUGHT|quiet|INCONCLUSIVE|PATCH)" | sed "s/^/$name: /"
  # what the checks caught unprepared, before anything was changed because of this seeded change
  [ -f seeded/$name/first_pass.json ] || cp $root/detect-$name.json seeded/$name/first_pass.json 2>/dev/null
done
