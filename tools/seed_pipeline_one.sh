#!/bin/sh
# tools/seed_pipeline_one.sh C07 E [extra check ids...]: third round, one change per property:
# confirm $SEED_ROOT/out-C07/E, then run the property's own check (quick, seeds 1 and 2) against it.
id=$1; v=$2; shift 2
root=${SEED_ROOT:-/tmp/seed3}
cd "$(dirname "$0")/.."
src=$root/out-$id/$v; name=$id-$v
[ -f $src/patch.diff ] || { echo "$name: no patch"; exit 0; }
if [ ! -f seeded/$name/meta.json ]; then
  python3 tools/seed_confirm.py $src $name --property $id > $root/confirm-$name.log 2>&1 || { echo "$name NOT-CONFIRMED (see $root/confirm-$name.log)"; exit 0; }
fi
python3 tools/seedtest.py seeded/$name/patch.diff --seeds 1,2 --json $root/detect-$name.json $id "$@" 2>&1 | grep -E "^(CAUGHT|quiet|INCONCLUSIVE|PATCH)" | sed "s/^/$name: /"
[ -f seeded/$name/first_pass.json ] || cp $root/detect-$name.json seeded/$name/first_pass.json 2>/dev/null
