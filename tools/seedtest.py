#!/usr/bin/env python3
"""Sensitivity run: apply a patch to a scratch worktree of /repo (never to /repo itself),
run the given checks against that worktree, report which of them raise the alarm.

  tools/seedtest.py PATCH [--tier quick] [--seeds 1,2] [--keep] ID [ID...]   (ID 'all' = every check)

Evidence and found replays go to a scratch directory; /verif/evidence is never touched.
Prints one line per (check, seed): CAUGHT / quiet / INCONCLUSIVE and the violation kind.
"""
import argparse, json, os, re, shutil, subprocess, sys, tempfile, time

ROOT = os.path.dirname(os.path.dirname(os.path.abspath(__file__)))


def main():
    ap = argparse.ArgumentParser()
    ap.add_argument("patch")
    ap.add_argument("ids", nargs="+")
    ap.add_argument("--tier", default="quick")
    ap.add_argument("--seeds", default="1")
    ap.add_argument("--keep", action="store_true")
    ap.add_argument("--scale", default=None)
    ap.add_argument("--json")
    ap.add_argument("--no-replays", action="store_true", help="skip the regression replays: generated search only")
    a = ap.parse_args()
    ids = a.ids
    if ids == ["all"]:
        ids = [c["property_id"] for c in json.load(open(os.path.join(ROOT, "MANIFEST.json")))["checks"]]
    base = tempfile.mkdtemp(prefix="seedtest.", dir="/tmp")
    wt = os.path.join(base, "wt")
    subprocess.run(["git", "-C", "/repo", "worktree", "add", "-q", "--detach", wt, "HEAD"], check=True)
    results = []
    try:
        if a.patch != "none":
            p = subprocess.run(["git", "-C", wt, "apply", os.path.abspath(a.patch)], stderr=subprocess.PIPE, text=True)
            if p.returncode != 0:
                print("PATCH-DOES-NOT-APPLY", p.stderr)
                return 2
        env = dict(os.environ, VERIF_REPO=wt, VERIF_BUILD_DIR=os.path.join(base, "build"),
                   VERIF_EVIDENCE_DIR=os.path.join(base, "ev"), VERIF_FOUND_DIR=os.path.join(base, "found"))
        if a.no_replays:
            env["VERIF_NO_REPLAYS"] = "1"
        for pid in ids:
            for seed in a.seeds.split(","):
                t0 = time.time()
                cmd = [os.path.join(ROOT, "check"), pid, "--tier", a.tier, "--seed", seed]
                if a.scale:
                    cmd += ["--scale", a.scale]
                p = subprocess.run(cmd, env=env, stdout=subprocess.PIPE, stderr=subprocess.STDOUT, text=True, errors="replace")
                m = re.search(r"^VIOLATION property=(\S+) replay=(\S+)", p.stdout, re.M)
                kind = ""
                if m:
                    rp = m.group(2)
                    try:
                        kind = (json.load(open(rp)).get("violation") or {}).get("kind", "")
                    except Exception:
                        kind = ""
                    if "/replays/" in rp and "/found/" not in rp:
                        kind = "regression-replay:" + os.path.basename(rp)
                verdict = "CAUGHT" if (p.returncode == 1 and m) else ("quiet" if p.returncode == 0 else "INCONCLUSIVE")
                print("%-12s %s seed=%s %.0fs %s" % (verdict, pid, seed, time.time() - t0, kind), flush=True)
                if verdict == "INCONCLUSIVE":
                    print(p.stdout[-1500:])
                results.append(dict(check=pid, seed=int(seed), verdict=verdict, kind=kind, wall_s=round(time.time() - t0, 1)))
        if a.json:
            with open(a.json, "w") as f:
                json.dump(results, f, indent=1)
    finally:
        if not a.keep:
            subprocess.run(["git", "-C", "/repo", "worktree", "remove", "--force", wt])
            shutil.rmtree(base, ignore_errors=True)
        else:
            print("kept", base)
    return 0


if __name__ == "__main__":
    sys.exit(main())
