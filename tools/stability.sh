#!/bin/sh
# Development aid: run every check of MANIFEST.json at the given tier and seeds on the
# current tree without touching /verif/evidence or /verif/replays/found, and report
# every run that is not "exit 0, no VIOLATION line".
#   tools/stability.sh quick 2 3 5
tier=$1; shift
cd "$(dirname "$0")/.."
bad=0
for seed in "$@"; do
  out=$(mktemp -d)
  for id in $(jq -r '.checks[].property_id' MANIFEST.json); do
    VERIF_EVIDENCE_DIR=$out/ev VERIF_FOUND_DIR=$out/found ./check $id --tier $tier --seed $seed > $out/$id.log 2>&1
    rc=$?
    if [ $rc -ne 0 ] || grep -q '^VIOLATION' $out/$id.log; then
      bad=1; echo "NOT-QUIET seed=$seed $id rc=$rc log=$out/$id.log"; tail -5 $out/$id.log | cut -c1-400
    else
      echo "quiet seed=$seed $id $(tail -1 $out/$id.log | cut -c1-120)"
    fi
  done
done
exit $bad
